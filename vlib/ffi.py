"""ctypes binding to one built configuration of the library (+ vk_* shim), and conversions between
Python integers / reference-model values and the library's native in-memory layout.

Conversions are done *here*, in Python (Montgomery form = a * 2^bits mod p), so inputs never pass
through library code before they reach the operation under test."""
import ctypes
import os
import weakref
import re
from ctypes import c_char_p, c_int, c_size_t, c_uint64, c_void_p, c_uint

from . import build, ref

q, r = ref.q, ref.r
RQ, RR = ref.MONT_Q, ref.MONT_R
RQI, RRI = ref.MONT_Q_INV, ref.MONT_R_INV

RNG_T = ctypes.CFUNCTYPE(None, c_void_p, c_size_t)
HASH_T = ctypes.CFUNCTYPE(None, c_void_p, c_size_t, c_void_p, c_size_t)

_U64_RET = re.compile(r"_(shl1|shr1|shl3|shr3|shift_left|shift_right|divx|div10)$")
_SIZE_RET = re.compile(r"(vk_sizeof|_size|_length)$")


def u64(v):
    return c_uint64(v)


def sz(v):
    return c_size_t(v)


# ---------------------------------------------------------------------------------------------------- guard-page allocator (C17)
# VERIF_GUARD=end|start: every argument / result object handed to the library lives flush against an inaccessible page (after its last
# byte, or before its first), so a read or write beyond the object faults even when it is made by hand-written assembly, which the
# sanitizers do not instrument.  Objects whose size is not a multiple of 16 keep the library's 16-byte alignment and therefore a slack of
# up to 15 bytes on the far side in "end" mode.
_GUARD = os.environ.get("VERIF_GUARD", "")
_PAGE = 4096
_libc_mm = None


def _alloc(n, fill=0):
    if not _GUARD:
        if fill:
            return ctypes.create_string_buffer(bytes([fill]) * n, n)
        return ctypes.create_string_buffer(n)
    global _libc_mm
    if _libc_mm is None:
        _libc_mm = ctypes.CDLL(None, use_errno=True)
        _libc_mm.mmap.restype = ctypes.c_void_p
        _libc_mm.mmap.argtypes = [ctypes.c_void_p, ctypes.c_size_t, ctypes.c_int, ctypes.c_int, ctypes.c_int, ctypes.c_long]
        _libc_mm.munmap.argtypes = [ctypes.c_void_p, ctypes.c_size_t]
        _libc_mm.mprotect.argtypes = [ctypes.c_void_p, ctypes.c_size_t, ctypes.c_int]
    n = max(n, 1)
    pages = (n + _PAGE - 1) // _PAGE
    total = (pages + 2) * _PAGE
    base = _libc_mm.mmap(None, total, 3, 0x22, -1, 0)            # PROT_READ|PROT_WRITE, MAP_PRIVATE|MAP_ANONYMOUS
    if base in (None, ctypes.c_void_p(-1).value):
        raise MemoryError("mmap")
    _libc_mm.mprotect(base, _PAGE, 0)
    _libc_mm.mprotect(base + (pages + 1) * _PAGE, _PAGE, 0)
    if _GUARD == "start":
        addr = base + _PAGE
    else:
        addr = (base + (pages + 1) * _PAGE - n) & ~15
    arr = (ctypes.c_char * n).from_address(addr)
    if fill:
        ctypes.memset(addr, fill, n)
    weakref.finalize(arr, _libc_mm.munmap, base, total)
    return arr


class Lib:
    def __init__(self, config, path=None):
        self.config = config
        self.path = path or build.build(config)
        self.so = ctypes.CDLL(self.path, mode=ctypes.RTLD_LOCAL)
        self._fn = {}
        self.so.vk_sizeof.restype = c_size_t
        self.size = {}
        for n in ("bigint64", "bigint128", "bigint192", "bigint256", "bigint384", "bigint512", "bigint768", "word", "dword",
                  "fq", "fr", "fq2", "fq6", "fq12", "g1affine", "g2affine", "g1", "g2", "g2prepared", "affinepair",
                  "preparedpair", "powersofx", "millertriple", "wk_attribute", "wk_attributelist", "wk_params",
                  "wk_ciphertext", "wk_signature", "wk_freeslot", "wk_secretkey", "wk_masterkey", "wk_precomputed",
                  "lq_idhash", "lq_params", "lq_id", "lq_masterkey", "lq_secretkey", "lq_ciphertext"):
            self.size[n] = self.so.vk_sizeof(n.encode())
        self.word_bits = self.f("vk_word_bits")()
        self.readonly = False
        import os
        if os.environ.get("VERIF_WRITEPROTECT"):
            self.write_protect()

    def write_protect(self):
        """C20 monitor: make every writable mapping of the library image read-only; a later store to library-global state
        faults (static initialisers - the CPU dispatch - have already run)."""
        real = __import__("os").path.realpath(self.path)
        libc = ctypes.CDLL(None, use_errno=True)
        libc.mprotect.argtypes = [c_void_p, c_size_t, c_int]
        import struct
        base = None
        with open("/proc/self/maps") as fh:
            for line in fh:
                parts = line.split()
                if len(parts) > 5 and parts[5] == real:
                    lo = int(parts[0].split("-")[0], 16)
                    off = int(parts[2], 16)
                    if off == 0:
                        base = lo if base is None else min(base, lo)
        assert base is not None, "library mapping not found"
        regions = []
        with open(real, "rb") as fh:
            eh = fh.read(64)
            assert eh[:4] == b"\x7fELF" and eh[4] == 2, "ELF64 expected"
            e_phoff, = struct.unpack_from("<Q", eh, 32)
            e_phentsize, e_phnum = struct.unpack_from("<HH", eh, 54)
            for i in range(e_phnum):
                fh.seek(e_phoff + i * e_phentsize)
                ph = fh.read(e_phentsize)
                p_type, p_flags, p_offset, p_vaddr, p_paddr, p_filesz, p_memsz, p_align = struct.unpack_from("<IIQQQQQQ", ph, 0)
                if p_type == 1 and (p_flags & 2):          # PT_LOAD, writable (.data, .bss, .got ...)
                    lo = (base + p_vaddr) & ~0xFFF
                    hi = (base + p_vaddr + p_memsz + 0xFFF) & ~0xFFF
                    regions.append((lo, hi - lo))
        # fault classifier first (its own bookkeeping lives in the library image and is only read afterwards)
        n_r = len(regions)
        lo_a = (ctypes.c_uint64 * n_r)(*[lo for lo, _ in regions])
        hi_a = (ctypes.c_uint64 * n_r)(*[lo + n for lo, n in regions])
        inst = self.so.vk_wp_install
        inst.restype = c_int
        if inst(lo_a, hi_a, n_r) != 0:
            raise OSError("cannot install the write-protection fault classifier")
        for lo, n in regions:
            if libc.mprotect(lo, n, 1) != 0:
                raise OSError("mprotect failed")
        self.readonly = True
        self.protected_regions = regions
        # process exit runs the image's own __do_global_dtors_aux, which sets a "completed" flag in .bss: not a store made by any
        # library call - lift the protection before the dynamic loader's finalisers run
        import atexit

        def _unprotect(regions=regions, libc=libc, pid=__import__("os").getpid()):
            for lo, n in regions:
                libc.mprotect(lo, n, 3)
        atexit.register(_unprotect)

    # ------------------------------------------------------------------ raw access
    def f(self, name):
        fn = self._fn.get(name)
        if fn is None:
            fn = getattr(self.so, name)
            if _U64_RET.search(name):
                fn.restype = c_uint64
            elif name.endswith("unmarshalled_length") or name.endswith("set_length"):
                fn.restype = c_int
            elif _SIZE_RET.search(name):
                fn.restype = c_size_t
            else:
                fn.restype = c_int
            self._fn[name] = fn
        return fn

    def has(self, name):
        try:
            getattr(self.so, name)
            return True
        except AttributeError:
            return False

    @staticmethod
    def buf(n, init=None):
        b = _alloc(n)
        if init is not None:
            ctypes.memmove(b, init, min(n, len(init)))
        return b

    def call(self, name, *args):
        """bytes arguments are copied into fresh buffers (inputs); ctypes objects are passed as they are."""
        conv = []
        for a in args:
            if isinstance(a, (bytes, bytearray)):
                conv.append(self.buf(max(len(a), 1), bytes(a)))
            else:
                conv.append(a)
        return self.f(name)(*conv)

    def out(self, name, out_size, *args):
        """Calls name(out, *args) with a fresh output buffer pre-filled with 0xCD; returns its bytes."""
        o = _alloc(out_size, 0xCD)
        self.call(name, o, *args)
        return o.raw

    def outr(self, name, out_size, *args):
        o = _alloc(out_size, 0xCD)
        rv = self.call(name, o, *args)
        return rv, o.raw

    def const(self, name, size):
        o = ctypes.create_string_buffer(size)
        self.f("vk_const")(name.encode(), o)
        return o.raw

    # ------------------------------------------------------------------ integers
    def bi(self, v, bits):
        n = self.size["bigint%d" % bits]
        return (v % (1 << bits)).to_bytes(bits // 8, "little") + b"\0" * (n - bits // 8)

    @staticmethod
    def unbi(b, bits):
        return int.from_bytes(b[:bits // 8], "little")

    # ------------------------------------------------------------------ field elements (value -> native)
    @staticmethod
    def fq(a):
        return (a % q * RQ % q).to_bytes(48, "little")

    @staticmethod
    def fq_raw(m):
        """native Fq holding the internal residue m (no conversion)"""
        return m.to_bytes(48, "little")

    @staticmethod
    def unfq(b):
        m = int.from_bytes(b[:48], "little")
        return m * RQI % q

    @staticmethod
    def unfq_raw(b):
        return int.from_bytes(b[:48], "little")

    @staticmethod
    def fr(a):
        return (a % r * RR % r).to_bytes(32, "little")

    @staticmethod
    def unfr(b):
        return int.from_bytes(b[:32], "little") * RRI % r

    @staticmethod
    def unfr_raw(b):
        return int.from_bytes(b[:32], "little")

    def f2(self, a):
        return self.fq(a[0]) + self.fq(a[1])

    def unf2(self, b):
        return (self.unfq(b[0:48]), self.unfq(b[48:96]))

    def f6(self, a):
        return b"".join(self.f2(c) for c in a)

    def unf6(self, b):
        return tuple(self.unf2(b[96 * i:96 * i + 96]) for i in range(3))

    def f12(self, a):
        return self.f6(a[0]) + self.f6(a[1])

    def unf12(self, b):
        return (self.unf6(b[0:288]), self.unf6(b[288:576]))

    def canonical_fq(self, b):
        return int.from_bytes(b[:48], "little") < q

    def canonical_ext(self, b, ncoef):
        return all(int.from_bytes(b[48 * i:48 * i + 48], "little") < q for i in range(ncoef))

    # ------------------------------------------------------------------ points
    def coord(self, c, g):
        return self.fq(c) if g == 1 else self.f2(c)

    def uncoord(self, b, g):
        return self.unfq(b) if g == 1 else self.unf2(b)

    def aff(self, P, g, garbage=False):
        """native G1Affine/G2Affine for a model point (None = identity)."""
        n = self.size["g1affine" if g == 1 else "g2affine"]
        cs = 48 * g
        if P is None:
            body = self.coord(0 if g == 1 else (0, 0), g) + self.coord(1 if g == 1 else (1, 0), g) + b"\x01"
        else:
            body = self.coord(P[0], g) + self.coord(P[1], g) + b"\x00"
        return body + b"\0" * (n - len(body))

    def unaff(self, b, g):
        cs = 48 * g
        if b[2 * cs] != 0:
            return None
        return (self.uncoord(b[0:cs], g), self.uncoord(b[cs:2 * cs], g))

    def aff_inf_flag(self, b, g):
        return b[96 * g]

    def proj(self, P, g, z=None):
        """native Jacobian point (x z^2, y z^3, z); identity: (0, 1, 0) unless z is a triple."""
        F = ref.FIELDS[g]
        if P is None:
            if isinstance(z, tuple) and len(z) == 3 and z[2] == F.zero:
                x, y, zz = z
            else:
                x, y, zz = F.zero, F.one, F.zero
            return self.coord(x, g) + self.coord(y, g) + self.coord(zz, g)
        if z is None:
            z = F.one
        z2 = F.mul(z, z)
        return self.coord(F.mul(P[0], z2), g) + self.coord(F.mul(P[1], F.mul(z2, z)), g) + self.coord(z, g)

    def unproj_raw(self, b, g):
        cs = 48 * g
        return tuple(self.uncoord(b[cs * i:cs * i + cs], g) for i in range(3))

    def unproj(self, b, g):
        """model point of a native Jacobian point, by the definition (x/z^2, y/z^3)."""
        F = ref.FIELDS[g]
        x, y, z = self.unproj_raw(b, g)
        if z == F.zero:
            return None
        zi = F.inv(z)
        zi2 = F.mul(zi, zi)
        return (F.mul(x, zi2), F.mul(y, F.mul(zi2, zi)))

    # ------------------------------------------------------------------ callbacks
    @staticmethod
    def rng(answer):
        """answer(n) -> bytes of length n. Returns a ctypes callback (keep a reference!)."""
        def cb(ptr, n):
            data = answer(n)
            assert len(data) == n
            ctypes.memmove(ptr, data, n)
        return RNG_T(cb)


def varying_filler(i, n):
    """answer of a scripted random source once its script is used up / its horizon is passed: deterministic, but different for every
    request index - with a constant answer a correct rejection sampler that happens to reject that constant would spin forever, and the
    harness, not the library, would be the reason for the hang"""
    import hashlib
    out = b""
    k = 0
    while len(out) < n:
        out += hashlib.sha256(b"filler:%d:%d" % (i, k)).digest()
        k += 1
    return out[:n]


class CounterRng:
    """Deterministic byte stream: SHA-256 in counter mode from a seed. Also records request lengths."""

    def __init__(self, seed):
        import hashlib
        self._h = hashlib
        self.seed = seed if isinstance(seed, bytes) else str(seed).encode()
        self.ctr = 0
        self.requests = []
        self.cb = Lib.rng(self.answer)

    def answer(self, n):
        self.requests.append(n)
        out = b""
        while len(out) < n:
            out += self._h.sha256(self.seed + self.ctr.to_bytes(8, "little")).digest()
            self.ctr += 1
        return out[:n]


_libs = {}


def lib(config):
    import os
    if os.environ.get("VERIF_SANITIZE") and not config.startswith("san-"):
        config = "san-" + config          # C17: the same call sequences under ASan + UBSan (python runs with the ASan runtime preloaded)
    if config not in _libs:
        _libs[config] = Lib(config)
    return _libs[config]
