"""Deterministic alphabets (DESIGN.md section 3). VERIF_SEED only changes the 'filler' values."""
import hashlib
import itertools

from . import ref

q, r, X = ref.q, ref.r, ref.X_ABS


def dedup(seq):
    return list(dict.fromkeys(seq))


def filler(seed, tag, i, bits):
    h = b""
    c = 0
    while len(h) * 8 < bits:
        h += hashlib.sha256(("%d|%s|%d|%d" % (seed, tag, i, c)).encode()).digest()
        c += 1
    return int.from_bytes(h, "big") >> (len(h) * 8 - bits)


def fillers(seed, tag, n, mod):
    return [filler(seed, tag, i, mod.bit_length() + 64) % mod for i in range(n)]


def limbs(m, nlimbs):
    return [(m >> (64 * i)) & (2**64 - 1) for i in range(nlimbs)]


def limb_product(m, nlimbs, level):
    """All integers whose 64-bit limbs are drawn from the per-limb alphabet. level: 3 / 5 / 9 values."""
    ml = limbs(m, nlimbs)
    per = []
    for i in range(nlimbs):
        if level == 3:
            vals = [0, 2**64 - 1, ml[i]]
        elif level == 5:
            vals = [0, 1, 2**64 - 1, (ml[i] - 1) % 2**64, ml[i]]
        else:
            vals = [0, 1, 2**32 - 1, 2**32, 2**63, 2**64 - 1, (ml[i] - 1) % 2**64, ml[i], (ml[i] + 1) % 2**64]
        per.append(dedup(vals))
    out = []
    for combo in itertools.product(*per):
        v = 0
        for i, l in enumerate(combo):
            v |= l << (64 * i)
        out.append(v)
    return dedup(out)


def half_limb_product(m, nlimbs, rich=False):
    """Operands for doubling / shifting operations: the decision points of 2a >= m lie at a = m/2, so the per-limb alphabet is
    built from the limbs of m >> 1 (h_i - 1, h_i, h_i + 1) together with 0 and 2^64-1 (and 2^63, 2^63-1 when rich): all 2a whose
    leading limbs coincide with the modulus' and whose lower limbs sit at either extreme are produced."""
    hl = limbs(m >> 1, nlimbs)
    per = []
    for i in range(nlimbs):
        vals = [0, 2**64 - 1, (hl[i] - 1) % 2**64, hl[i], (hl[i] + 1) % 2**64]
        if rich:
            vals += [2**63, 2**63 - 1, 1]
        per.append(dedup(vals))
    out = []
    for combo in itertools.product(*per):
        v = 0
        for i, l in enumerate(combo):
            v |= l << (64 * i)
        out.append(v)
    return dedup(out)


def sign_limb_product(nlimbs):
    """operands whose 64-bit limbs are 0, all ones, 2^63 or 2^63-1: the values at which a limb (or the high half of a limb product) changes
    its top bit - signed-overflow flags of legacy add/adc instructions, sign extensions and arithmetic shifts turn there"""
    out = []
    for combo in itertools.product([0, 2**64 - 1, 2**63, 2**63 - 1], repeat=nlimbs):
        v = 0
        for i, l in enumerate(combo):
            v |= l << (64 * i)
        out.append(v)
    return out


def boundary(m, bits, seed, nfill=16, tag="B"):
    """Named boundary values B(m) (all reduced into [0, m))."""
    R = pow(2, bits, m)
    vals = [0, 1, 2, 3, m - 1, m - 2, (m - 1) // 2, (m + 1) // 2, R, R * R % m, (m - R) % m]
    for k in range(32, bits, 32):
        for v in (2**k, 2**k - 1, 2**k + 1, m - 2**k):
            vals.append(v % m)
    vals += fillers(seed, tag + str(bits), nfill, m)
    return dedup(v % m for v in vals)


def targeted_pairs(m, bits, base):
    """(a, b) with a+b on / just below / just above the modulus and the word-size power."""
    out = []
    for a in base:
        for b in (m - a - 1, m - a, m - a + 1, a, a + 1, a - 1):
            if 0 <= b < m:
                out.append((a, b))
    return dedup(out)


def scalars(bits, seed, tier="thorough"):
    vals = list(range(0, 18))
    ws = (1, 2, 3, 4, 5, 6) if tier == "thorough" else (2, 5)
    for k in range(0, bits + 1, 8 if tier == "thorough" else 16):
        for d in (-1, 0, 1):
            vals.append(2**k + d)
        for w in ws:
            if k - w > 0:
                vals += [2**(k - w), 2**(k - w) - 1, 2**(k - w) + 1]
            if k + w < bits:
                vals += [2**(k + w), 2**(k + w) - 1, 2**(k + w) + 1]
    vals += [2**bits - j for j in range(1, 34)]
    if tier == "thorough":
        vals += [2**k for k in range(bits)]
    for pat in (0x55, 0xAA, 0x0F, 0xF0, 0x33, 0xCC):
        vals.append(int.from_bytes(bytes([pat]) * (bits // 8), "big"))
    vals.append(int.from_bytes((b"\xff\xff\x00\x00" * (bits // 32)), "big"))
    vals.append(int.from_bytes((b"\x00\x00\xff\xff" * (bits // 32)), "big"))
    if bits >= 256:
        lam = X * X - 1                      # eigenvalue of the G1 endomorphism (lambda^2 + lambda + 1 = 0 mod r)
        vals += [r - 1, r, r + 1, 2 * r - 1, 2 * r, 2 * r + 1, (2**256 // r) * r - 1, (2**256 // r) * r, (2**256 // r) * r + 1,
                 lam, lam - 1, lam + 1, r - lam, r - lam - 1, (r + 1) // 2, (r - 1) // 2, (r + 1) // 2 + 1, (r - 1) // 2 - 1]
        v12 = X * X - 1
        # GLV rounding thresholds: k where round(k*v12/r) steps, near 0, the middle and the top
        for j in (1, 2, 3, v12 // 2, v12 - 2, v12 - 1, v12):
            t = (2 * j - 1) * r // (2 * v12)
            vals += [t - 1, t, t + 1, t + 2]
        # ... and the thresholds at which the rounded quotient itself (a 128-bit intermediate, two stored words) takes a boundary word
        # pattern: low word 0, 1, 2^32 +- 1, 2^64 - 1, high word 0, 2^63, the top - for both lattice coefficients (|x|^2 - 1 and |x|^2)
        los = (1, 2**32 + 1, 2**64 - 1) if tier != "thorough" else (0, 1, 2**32 - 1, 2**32, 2**32 + 1, 2**63, 2**64 - 1)
        for vv in (v12, v12 + 1):
            his = (0, 2**63, (vv >> 64) - 1) if tier != "thorough" else (0, 1, 2**32, 2**63 - 1, 2**63, (vv >> 64) - 1, vv >> 64)
            for hi in his:
                for lo in los:
                    j = (hi << 64) | lo
                    if 0 < j < vv:
                        # where the ROUNDED quotient reaches j (j - 1/2) and where the FLOORED quotient does (j)
                        for t in ((2 * j - 1) * r // (2 * vv), j * r // vv):
                            vals += [t - 1, t, t + 1, t + 2]
                            vals += [(t + 1 + r) % 2**256] if t + 1 + r < 2**256 else []
        thr = (2**128 * r + v12 - 1) // v12
        vals += [thr - 2, thr - 1, thr, thr + 1, thr + 2]
        for i in range(4):
            for c in (0, 1, X - 1):
                for d in (0, 1, X - 1):
                    vals.append(c * X**i + d)
                    vals.append(c * X**i + d * X**max(i - 1, 0))
        vals += [X**4 - 1, X**4, X**3 * (X - 1) + X**2 * (X - 1) + X * (X - 1) + X - 1, 2**256 - 1 - r, 2**256 - r, X**3 * 2**64 - 1]
    if bits >= 256:
        # the scalar as STORED 64-bit words: every word drawn from values that are boundaries of the base-|x| division steps (a remainder
        # next to |x|, the quotient estimate at 2^32 / 2^64) - quick: {0, |x|-1, 2^64-1}^4, thorough: {0, |x|-2, |x|-1, |x|, 2^63, 2^64-1}^4
        wal = (0, X - 1, 2**64 - 1) if tier != "thorough" else (0, X - 2, X - 1, X, 2**63, 2**64 - 1)
        for ws4 in itertools.product(wal, repeat=4):
            vals.append(sum(w << (64 * i) for i, w in enumerate(ws4)))
    if bits == 128:
        vals += [ref.G1_COFACTOR, ref.G1_COFACTOR - 1, ref.G1_COFACTOR + 1]
    if bits == 512:
        vals += [ref.G2_COFACTOR, ref.G2_COFACTOR - 1, ref.G2_COFACTOR + 1, r, r * r, r * r - 1, q, q + 1, r - 1, r + 1]
    if bits == 64:
        vals += [X, X - 1, X + 1]
    vals += [filler(seed, "S%d" % bits, i, bits) for i in range(16)]
    vals += [filler(seed, "Ss%d" % bits, i, bits // 2) for i in range(4)]
    return dedup(v for v in vals if 0 <= v < 2**bits)


# ------------------------------------------------------------------------------------------- points
def small_order_points_g1():
    """Curve points outside G1 from try-and-increment at x = 0, 1, 2, ... ((0, +-2) has order 3)."""
    out = []
    x = 0
    while len(out) < 3:
        pts = ref.point_from_x(x % q, 1)
        if pts is not None and not ref.in_subgroup(pts[0], 1):
            out.append(pts[0])
        x += 1
    return out


def non_subgroup_points_g2():
    out = []
    c0 = 0
    while len(out) < 2:
        pts = ref.point_from_x((c0, 1), 2)
        if pts is not None and not ref.in_subgroup(pts[0], 2):
            out.append(pts[0])
        c0 += 1
    return out


_PT_CACHE = {}


def subgroup_points(g, seed, tier):
    """[(label, point)] in the order-r subgroup, closed under negation, containing P, 2P, -P for each base."""
    key = (g, seed, tier)
    if key in _PT_CACHE:
        return _PT_CACHE[key]
    G = ref.G1_GEN if g == 1 else ref.G2_GEN
    ks = [1, 2, 3, 4, r - 1, r - 2, r - 3, r - 4, (r + 1) // 2, (r - 1) // 2]
    # the j = 0 automorphism (x, y) -> (w x, y): points with EQUAL y and different x (and, with the negatives, opposite y and different x);
    # on the order-r subgroup it is multiplication by a cube root of unity mod r
    lam = (X * X - 1) % r
    ks += [lam, r - lam, lam * lam % r, r - lam * lam % r]
    nf = 1 if tier == "quick" else 3
    for f in fillers(seed, "pt%d" % g, nf, r):
        ks += [f, r - f, 2 * f % r]
    out = [("O", None)]
    for k in dedup(ks):
        out.append(("%d*G" % k if k < 100 else "k%x*G" % (k & 0xffffffff), ref.pt_mul(G, k, g)))
    _PT_CACHE[key] = out
    return out


def curve_points(g, seed, tier):
    """subgroup points + points outside the subgroup (with negatives and doubles)."""
    out = list(subgroup_points(g, seed, tier))
    extra = small_order_points_g1() if g == 1 else non_subgroup_points_g2()
    if tier == "quick":
        extra = extra[:2] if g == 1 else extra[:1]
    for i, P in enumerate(extra):
        out.append(("N%d" % i, P))
        out.append(("-N%d" % i, ref.pt_neg(P, g)))
        D = ref.pt_add(P, P, g)
        out.append(("2N%d" % i, D))
    seen = {}
    for lab, P in out:
        seen.setdefault(P, lab)
    return [(lab, P) for P, lab in seen.items()]


def z_values(g, seed, tier):
    """Jacobian representatives: z in {1, 2, -1, filler}."""
    if g == 1:
        zs = [1, 2, q - 1]
        if tier != "quick":
            zs.append(fillers(seed, "z1", 1, q)[0])
        return zs
    zs = [(1, 0), (2, 0), (q - 1, 0), (0, 1)]
    if tier != "quick":
        f = fillers(seed, "z2", 2, q)
        zs.append((f[0], f[1]))
    return zs


def identity_forms(g):
    F = ref.FIELDS[g]
    G = ref.G1_GEN if g == 1 else ref.G2_GEN
    return [(F.zero, F.one, F.zero), (F.one, F.one, F.zero), (G[0], G[1], F.zero)]


# ------------------------------------------------------------------------------------------- extension fields
def fq_components(seed, n=3):
    return dedup([0, 1, q - 1, 2, (q - 1) // 2] + fillers(seed, "C", n, q))


def fq2_alphabet(seed, n=3):
    C = fq_components(seed, n)
    return [(a, b) for a in C for b in C]


def _vectors(ncoef, seed, tag, limit):
    """Vectors over {0, 1, -1, filler} covering every zero/non-zero support pattern."""
    vals = []
    fl = fillers(seed, tag, 4 * ncoef, q)
    # every support pattern with fillers, plus unit patterns with 1 and -1
    # support patterns ordered so that a prefix of any length touches every coefficient position and contains both sparse and
    # dense operands: masks sorted by popcount, taken alternately from the sparse and the dense end
    asc = sorted(range(1 << ncoef), key=lambda m: (bin(m).count("1"), m))
    order = []
    for lo, hi in zip(asc, reversed(asc)):
        order += [lo, hi]
    for mask in dedup(order):
        if len(vals) >= limit:
            break
        vals.append(tuple(fl[i] if (mask >> i) & 1 else 0 for i in range(ncoef)))
    for i in range(ncoef):
        for c in (1, q - 1, 2):
            v = [0] * ncoef
            v[i] = c
            vals.append(tuple(v))
    vals.append(tuple([1] * ncoef))
    vals.append(tuple([q - 1] * ncoef))
    vals.append(tuple(fl[ncoef + i] for i in range(ncoef)))
    vals.append(tuple(fl[2 * ncoef + i] for i in range(ncoef)))
    return dedup(vals)


def unit_plus_one(ncoef, seed, tag):
    """2-sparse vectors with one coefficient exactly 1 or -1 and one generic coefficient (every ordered position pair): elements
    such as 1 + t*w^5 whose norms / intermediate values hit the constants that shortcuts test for (is_one, is_zero) only partly"""
    fl = fillers(seed, tag + "u1", ncoef, q)
    out = []
    for i in range(ncoef):
        for j in range(ncoef):
            if i != j:
                for c in (1, q - 1):
                    v = [0] * ncoef
                    v[i] = c
                    v[j] = fl[j]
                    out.append(tuple(v))
    return out


def fq6_alphabet(seed, limit=64):
    return [((v[0], v[1]), (v[2], v[3]), (v[4], v[5])) for v in _vectors(6, seed, "f6", limit)]


def fq12_alphabet(seed, limit=4096):
    out = []
    for v in _vectors(12, seed, "f12", limit):
        out.append((((v[0], v[1]), (v[2], v[3]), (v[4], v[5])), ((v[6], v[7]), (v[8], v[9]), (v[10], v[11]))))
    return out


# ------------------------------------------------------------------------------------------- crafted points: formula boundaries
def cube_roots_fq(a):
    """all cube roots of a in Fq (q - 1 = 9 m, 3 does not divide m), [] if a is not a cube"""
    a %= q
    if a == 0:
        return [0]
    if pow(a, (q - 1) // 3, q) != 1:
        return []
    m = (q - 1) // 9
    k = next(k for k in range(3) if (1 + k * m) % 3 == 0)
    y0 = pow(a, (1 + k * m) // 3, q)                    # y0^3 = a * (a^m)^k, and a^m has order 1 or 3
    n = next(n for n in range(2, 200) if pow(n, (q - 1) // 3, q) != 1)
    z9 = pow(n, m, q)                                   # a primitive 9th root of unity
    for j in range(9):
        y = y0 * pow(z9, j, q) % q
        if pow(y, 3, q) == a:
            z3 = pow(z9, 3, q)
            return [y, y * z3 % q, y * z3 * z3 % q]
    raise AssertionError("cube root not found")


def _sqrt_fq(a):
    a %= q
    s = pow(a, (q + 1) // 4, q)
    return s if s * s % q == a else None


_FB = {}


def formula_boundary_points_g1():
    """G1-curve points (z = 1) for which an INTERMEDIATE of the doubling / mixed-addition formulas, as the Montgomery residue the library
    stores, sits at a boundary of the small-multiple steps (3A = 2A + A, 8C by three doublings, 4HH): k*q/f and its neighbours for f in
    {2, 3, 4, 8}.  No boundary of the coordinates themselves leads there; the points are found by extracting roots of the target.
    Returns {"double": [(label, P)], "mixed": [(label, P1, P2)]} - the points are ordinary curve points (mostly outside the subgroup)."""
    if _FB:
        return _FB
    Rinv = pow(2**384, -1, q)
    dbl, mixed = [], []

    def targets(f):
        for k in range(1, f):
            base = (k * q) // f
            for side in (0, 1):
                yield k, side, base

    # A = X^2 at k q / f  (E = 3A)
    for f in (2, 3):
        for k, side, base in targets(f):
            j = 0
            while True:
                t = base - j if side == 0 else base + 1 + j
                j += 1
                X = _sqrt_fq(t * Rinv % q)
                if X is None:
                    continue
                Y = _sqrt_fq(X**3 + 4)
                if Y is None:
                    continue
                dbl.append(("X^2 residue = %dq/%d%s%d" % (k, f, "-" if side == 0 else "+", j), (X, Y)))
                break
    # C = Y^4 at k q / 8  (8C)
    for k, side, base in targets(8):
        j = 0
        while True:
            t = base - j if side == 0 else base + 1 + j
            j += 1
            B = _sqrt_fq(t * Rinv % q)
            if B is None:
                continue
            Y = _sqrt_fq(B) or _sqrt_fq(q - B)
            if Y is None or pow(Y, 4, q) != t * Rinv % q:
                continue
            xs = cube_roots_fq(Y * Y - 4)
            if not xs:
                continue
            dbl.append(("Y^4 residue = %dq/8%s%d" % (k, "-" if side == 0 else "+", j), (xs[0], Y)))
            break
    # HH = (x2 - X1)^2 at k q / 4  (I = 4HH in the mixed addition with Z1 = 1)
    gens = [ref.pt_mul(ref.G1_GEN, m, 1) for m in range(2, 40)]
    for k, side, base in targets(4):
        j = 0
        done = False
        while not done:
            t = base - j if side == 0 else base + 1 + j
            j += 1
            H = _sqrt_fq(t * Rinv % q)
            if H is None:
                continue
            for P2 in gens:
                X1 = (P2[0] - H) % q
                Y1 = _sqrt_fq(X1**3 + 4)
                if Y1 is not None:
                    mixed.append(("(x2-X1)^2 residue = %dq/4%s%d" % (k, "-" if side == 0 else "+", j), (X1, Y1), P2))
                    done = True
                    break
    _FB.update({"double": dbl, "mixed": mixed})
    return _FB


_OB = {}


def output_boundary_cases_g1():
    """Jacobian representatives chosen by the OUTPUT of the formula: for ordinary subgroup points P, Q the representative (x z^2, y z^3, z)
    of P is picked so that the X coordinate the addition (resp. doubling) formulas of the library produce - X3 = x3 * Z3^2 with
    Z3 = 2 z (x2 - x1) z^2 for P + Q (Q normalised) and Z3 = 2 y z^4 for 2P - has a stored residue at a boundary: just below / above q
    (q-1, q-2, q-3, 0 is impossible, 1, 2) and just below the multiples k q / 2, k q / 4 that the subtraction chain r^2 - J - 2V passes.
    Returns {"add": [(label, P, z, Q)], "double": [(label, P, z)]}; a library with other (equivalent) formulas simply sees ordinary inputs."""
    if _OB:
        return _OB
    Rinv = pow(2**384, -1, q)
    targets = [q - 1, q - 2, q - 3, 1, 2, q // 2, q // 2 + 1, q // 4, 3 * q // 4, 2**383 % q, (2**384 - 1) % q]
    adds, dbls = [], []
    pts = [ref.pt_mul(ref.G1_GEN, k, 1) for k in range(3, 60)]
    for T in targets:
        X3 = T * Rinv % q
        found = 0
        for i in range(len(pts) - 1):
            P, Q = pts[i], pts[i + 1]
            S = ref.pt_add(P, Q, 1)
            Z3 = _sqrt_fq(X3 * pow(S[0], -1, q))
            if Z3 is None:
                continue
            for Zc in (Z3, q - Z3):
                zs = cube_roots_fq(Zc * pow(2 * (Q[0] - P[0]), -1, q))
                if zs:
                    adds.append(("X3 residue of P+Q = %x" % T, P, zs[0], Q))
                    found += 1
                    break
            if found:
                break
        for P in pts:
            D = ref.pt_add(P, P, 1)
            Z3 = _sqrt_fq(X3 * pow(D[0], -1, q))
            if Z3 is None:
                continue
            ok = False
            for Zc in (Z3, q - Z3):
                w = Zc * pow(2 * P[1], -1, q) % q
                s2 = _sqrt_fq(w)
                if s2 is None:
                    continue
                z = _sqrt_fq(s2) or _sqrt_fq(q - s2)
                if z is not None and pow(z, 4, q) == w:
                    dbls.append(("X3 residue of 2P = %x" % T, P, z))
                    ok = True
                    break
            if ok:
                break
    _OB.update({"add": adds, "double": dbls})
    return _OB
