"""Reference model for jedi-pairing (BLS12-381) in plain Python integers.

Deliberately boring: every object is defined from the mathematics in the property
statements, never from the library's algorithms.

  Fq, Fr            ints mod q, r (q, r derived from the BLS parameter x)
  Fq2               (a, b)            = a + b*u,              u^2 = -1
  Fq6               (c0, c1, c2)      = c0 + c1*v + c2*v^2,   v^3 = u + 1      (ci in Fq2)
  Fq12              (d0, d1)          = d0 + d1*w,            w^2 = v          (di in Fq6)
  flat Fq12         list of 12 ints   = sum p_i w^i,          w^12 = 2 w^6 - 2 (redundant definition)
  curve points      None (identity) or (x, y) affine; chord-and-tangent law
  pairing           textbook optimal-ate Miller loop f_{|x|,Q}(P) on the untwisted Q, conjugated for
                    negative x, raised to 3*(q^12-1)/r
"""

# ----------------------------------------------------------------------------- parameters
X_ABS = 0xd201000000010000          # |x|; x itself is negative
X = -X_ABS
R_ORDER = X**4 - X**2 + 1
assert ((X - 1)**2 * R_ORDER) % 3 == 0
Q = ((X - 1)**2 * R_ORDER) // 3 + X
q = Q
r = R_ORDER
assert q.bit_length() == 381 and r.bit_length() == 255
assert q % 4 == 3
FINAL_EXP = 3 * ((q**12 - 1) // r)
assert (q**12 - 1) % r == 0

MONT_Q = pow(2, 384, q)      # Montgomery radix for Fq
MONT_R = pow(2, 256, r)      # Montgomery radix for Fr
MONT_Q_INV = pow(MONT_Q, -1, q)
MONT_R_INV = pow(MONT_R, -1, r)

G1_COFACTOR = (X - 1)**2 // 3
# #E'(Fq2) = h2 * r
G2_COFACTOR = (X**8 - 4 * X**7 + 5 * X**6 - 4 * X**4 + 6 * X**3 - 4 * X**2 - 4 * X + 13) // 9

# published generators (standard BLS12-381 generators; compared with the headers by the checks)
G1_GEN = (
    0x17f1d3a73197d7942695638c4fa9ac0fc3688c4f9774b905a14e3a3f171bac586c55e83ff97a1aeffb3af00adb22c6bb,
    0x08b3f481e3aaa0f1a09e30ed741d8ae4fcf5e095d5d00af600db18cb2c04b3edd03cc744a2888ae40caa232946c5e7e1,
)
G2_GEN = (
    (0x024aa2b2f08f0a91260805272dc51051c6e47ad4fa403b02b4510b647ae3d1770bac0326a805bbefd48056c8c121bdb8,
     0x13e02b6052719f607dacd3a088274f65596bd0d09920b61ab5da61bbdc7f5049334cf11213945d57e5ac7d055d042b7e),
    (0x0ce5d527727d6e118cc9cdc6da2e351aadfd9baa8cbdd3a76d429a695160d12c923ac9cc3baca289e193548608b82801,
     0x0606c4a02ea734cc32acd2b02bc28b99cb3e287e85a763af267492ab572e99ab3f370d275cec1da1aaa9075ff05f79be),
)


# ----------------------------------------------------------------------------- Fq / Fr helpers
def fq_sqrt(a):
    """A square root of a in Fq, or None."""
    a %= q
    s = pow(a, (q + 1) // 4, q)
    return s if s * s % q == a else None


def legendre(a, p):
    a %= p
    if a == 0:
        return 0
    return 1 if pow(a, (p - 1) // 2, p) == 1 else -1


def fr_sqrt(a):
    a %= r
    if a == 0:
        return 0
    if legendre(a, r) != 1:
        return None
    # Tonelli-Shanks, plain
    s, t = 0, r - 1
    while t % 2 == 0:
        s += 1
        t //= 2
    z = 2
    while legendre(z, r) != -1:
        z += 1
    m, c, tt, res = s, pow(z, t, r), pow(a, t, r), pow(a, (t + 1) // 2, r)
    while tt != 1:
        i, t2 = 0, tt
        while t2 != 1:
            t2 = t2 * t2 % r
            i += 1
        b = pow(c, 1 << (m - i - 1), r)
        m, c = i, b * b % r
        tt, res = tt * c % r, res * b % r
    return res


# ----------------------------------------------------------------------------- Fq2
F2_ZERO = (0, 0)
F2_ONE = (1, 0)
XI = (1, 1)  # u + 1


def f2(a, b=0):
    return (a % q, b % q)


def f2_add(x, y):
    return ((x[0] + y[0]) % q, (x[1] + y[1]) % q)


def f2_sub(x, y):
    return ((x[0] - y[0]) % q, (x[1] - y[1]) % q)


def f2_neg(x):
    return ((-x[0]) % q, (-x[1]) % q)


def f2_mul(x, y):
    a, b = x
    c, d = y
    return ((a * c - b * d) % q, (a * d + b * c) % q)


def f2_sqr(x):
    return f2_mul(x, x)


def f2_scalar(x, k):
    return (x[0] * k % q, x[1] * k % q)


def f2_conj(x):
    return (x[0], (-x[1]) % q)


def f2_norm(x):
    return (x[0] * x[0] + x[1] * x[1]) % q


def f2_inv(x):
    n = f2_norm(x)
    if n == 0:
        return (0, 0)
    ni = pow(n, -1, q)
    return (x[0] * ni % q, (-x[1]) * ni % q)


def f2_pow(x, e):
    res = F2_ONE
    for bit in bin(e)[2:] if e else "":
        res = f2_mul(res, res)
        if bit == "1":
            res = f2_mul(res, x)
    return res


def f2_is_square(x):
    return legendre(f2_norm(x), q) != -1


def f2_sqrt(a):
    """A square root of a in Fq2 or None (brute definition: solve (s0+s1 u)^2 = a)."""
    a = f2(*a)
    if a == F2_ZERO:
        return F2_ZERO
    a0, a1 = a
    if a1 == 0:
        s = fq_sqrt(a0)
        if s is not None:
            return (s, 0)
        s = fq_sqrt(-a0)
        return (0, s) if s is not None else None
    n = fq_sqrt(f2_norm(a))
    if n is None:
        return None
    inv2 = pow(2, -1, q)
    for nn in (n, (-n) % q):
        t = (a0 + nn) * inv2 % q
        s0 = fq_sqrt(t)
        if s0 is None or s0 == 0:
            continue
        s1 = a1 * pow(2 * s0, -1, q) % q
        if f2_sqr((s0, s1)) == a:
            return (s0, s1)
    return None


# ----------------------------------------------------------------------------- Fq6 = Fq2[v]/(v^3 - xi)
F6_ZERO = (F2_ZERO, F2_ZERO, F2_ZERO)
F6_ONE = (F2_ONE, F2_ZERO, F2_ZERO)


def f6_add(x, y):
    return tuple(f2_add(a, b) for a, b in zip(x, y))


def f6_sub(x, y):
    return tuple(f2_sub(a, b) for a, b in zip(x, y))


def f6_neg(x):
    return tuple(f2_neg(a) for a in x)


def f6_mul(x, y):
    # schoolbook product of two quadratics in v, then v^3 -> xi, v^4 -> xi*v
    p = [F2_ZERO] * 5
    for i in range(3):
        for j in range(3):
            p[i + j] = f2_add(p[i + j], f2_mul(x[i], y[j]))
    return (f2_add(p[0], f2_mul(XI, p[3])), f2_add(p[1], f2_mul(XI, p[4])), p[2])


def f6_mul_by_v(x):
    return (f2_mul(XI, x[2]), x[0], x[1])


def f6_pow(x, e):
    res = F6_ONE
    for bit in bin(e)[2:] if e else "":
        res = f6_mul(res, res)
        if bit == "1":
            res = f6_mul(res, x)
    return res


# ----------------------------------------------------------------------------- Fq12 = Fq6[w]/(w^2 - v)
F12_ZERO = (F6_ZERO, F6_ZERO)
F12_ONE = (F6_ONE, F6_ZERO)


def f12_add(x, y):
    return (f6_add(x[0], y[0]), f6_add(x[1], y[1]))


def f12_sub(x, y):
    return (f6_sub(x[0], y[0]), f6_sub(x[1], y[1]))


def f12_neg(x):
    return (f6_neg(x[0]), f6_neg(x[1]))


def f12_mul(x, y):
    a0, a1 = x
    b0, b1 = y
    return (f6_add(f6_mul(a0, b0), f6_mul_by_v(f6_mul(a1, b1))),
            f6_add(f6_mul(a0, b1), f6_mul(a1, b0)))


def f12_conj(x):
    return (x[0], f6_neg(x[1]))


def f12_pow(x, e):
    res = F12_ONE
    for bit in bin(e)[2:] if e else "":
        res = f12_mul(res, res)
        if bit == "1":
            res = f12_mul(res, x)
    return res


def f12_from_fq(a):
    return (((a % q, 0), F2_ZERO, F2_ZERO), F6_ZERO)


def f12_from_f2(a):
    return ((a, F2_ZERO, F2_ZERO), F6_ZERO)


# ----------------------------------------------------------------------------- flat representations
# Fq12 = Fq[w]/(w^12 - 2 w^6 + 2)  since u = w^6 - 1 and u^2 = -1.
def f12_to_flat(x):
    p = [0] * 12
    for k in range(2):          # power of w
        for j in range(3):      # power of v = w^2
            a, b = x[k][j]
            m = 2 * j + k
            p[m] = (p[m] + a - b) % q
            p[m + 6] = (p[m + 6] + b) % q
    return p


def f12_from_flat(p):
    out = [[None] * 3 for _ in range(2)]
    for k in range(2):
        for j in range(3):
            m = 2 * j + k
            b = p[m + 6] % q
            a = (p[m] + p[m + 6]) % q
            out[k][j] = (a, b)
    return (tuple(out[0]), tuple(out[1]))


def flat12_mul(x, y):
    p = [0] * 23
    for i, a in enumerate(x):
        if a:
            for j, b in enumerate(y):
                p[i + j] += a * b
    for d in range(22, 11, -1):   # w^d = 2 w^(d-6) - 2 w^(d-12)
        c = p[d]
        if c:
            p[d - 6] += 2 * c
            p[d - 12] -= 2 * c
            p[d] = 0
    return [c % q for c in p[:12]]


# Fq6 = Fq[v]/(v^6 - 2 v^3 + 2) since u = v^3 - 1
def f6_to_flat(x):
    p = [0] * 6
    for j in range(3):
        a, b = x[j]
        p[j] = (p[j] + a - b) % q
        p[j + 3] = (p[j + 3] + b) % q
    return p


def f6_from_flat(p):
    return tuple(((p[j] + p[j + 3]) % q, p[j + 3] % q) for j in range(3))


def flat6_mul(x, y):
    p = [0] * 11
    for i, a in enumerate(x):
        for j, b in enumerate(y):
            p[i + j] += a * b
    for d in range(10, 5, -1):
        c = p[d]
        p[d - 3] += 2 * c
        p[d - 6] -= 2 * c
        p[d] = 0
    return [c % q for c in p[:6]]


# ----------------------------------------------------------------------------- Frobenius as a ring homomorphism
_FROB_W = {}
_FROB_V = {}
W12 = (F6_ZERO, F6_ONE)
V6 = (F2_ZERO, F2_ONE, F2_ZERO)


def _frob_w(k):
    k %= 12
    if k not in _FROB_W:
        _FROB_W[k] = W12 if k == 0 else f12_pow(_frob_w(k - 1), q)
    return _FROB_W[k]


def _frob_v(k):
    k %= 6
    if k not in _FROB_V:
        _FROB_V[k] = V6 if k == 0 else f6_pow(_frob_v(k - 1), q)
    return _FROB_V[k]


def f2_frob(x, k):
    return x if k % 2 == 0 else f2_conj(x)


def f6_frob(x, k):
    """x^(q^k): the Fq-linear ring automorphism sending v to v^(q^k)."""
    vk = _frob_v(k)
    p = f6_to_flat(x)
    res, vp = F6_ZERO, F6_ONE
    for c in p:
        res = f6_add(res, tuple(f2_scalar(t, c) for t in vp))
        vp = f6_mul(vp, vk)
    return res


def f12_frob(x, k):
    wk = _frob_w(k)
    p = f12_to_flat(x)
    res, wp = F12_ZERO, F12_ONE
    for c in p:
        if c:
            res = f12_add(res, tuple(tuple(f2_scalar(t, c) for t in h) for h in wp))
        wp = f12_mul(wp, wk)
    return res


# ----------------------------------------------------------------------------- elliptic curves (affine, generic)
class _Fq:
    zero, one = 0, 1
    add = staticmethod(lambda a, b: (a + b) % q)
    sub = staticmethod(lambda a, b: (a - b) % q)
    mul = staticmethod(lambda a, b: a * b % q)
    neg = staticmethod(lambda a: (-a) % q)
    inv = staticmethod(lambda a: pow(a, -1, q))
    sqrt = staticmethod(fq_sqrt)
    b = 4


class _Fq2:
    zero, one = F2_ZERO, F2_ONE
    add, sub, mul, neg, inv = map(staticmethod, (f2_add, f2_sub, f2_mul, f2_neg, f2_inv))
    sqrt = staticmethod(f2_sqrt)
    b = (4, 4)


FIELDS = {1: _Fq, 2: _Fq2}


def on_curve(P, g):
    if P is None:
        return True
    F = FIELDS[g]
    x, y = P
    return F.mul(y, y) == F.add(F.mul(F.mul(x, x), x), F.b)


def pt_neg(P, g):
    if P is None:
        return None
    return (P[0], FIELDS[g].neg(P[1]))


def pt_add(P, S, g):
    F = FIELDS[g]
    if P is None:
        return S
    if S is None:
        return P
    x1, y1 = P
    x2, y2 = S
    if x1 == x2:
        if y1 != y2 or y1 == F.zero:
            return None
        three = F.add(F.add(F.one, F.one), F.one)
        lam = F.mul(F.mul(three, F.mul(x1, x1)), F.inv(F.add(y1, y1)))
    else:
        lam = F.mul(F.sub(y2, y1), F.inv(F.sub(x2, x1)))
    x3 = F.sub(F.sub(F.mul(lam, lam), x1), x2)
    y3 = F.sub(F.mul(lam, F.sub(x1, x3)), y1)
    return (x3, y3)


def pt_mul(P, k, g):
    """[k]P by plain double-and-add on affine coordinates (k >= 0)."""
    res = None
    for bit in bin(k)[2:] if k else "":
        res = pt_add(res, res, g)
        if bit == "1":
            res = pt_add(res, P, g)
    return res


def point_from_x(x, g):
    """Both curve points with this x, or None."""
    F = FIELDS[g]
    y = F.sqrt(F.add(F.mul(F.mul(x, x), x), F.b))
    if y is None:
        return None
    return (x, y), (x, F.neg(y))


# ----------------------------------------------------------------------------- library order ("greater") on residues
def mont_q(a):
    return a * MONT_Q % q


def fq_lib_cmp(a, b):
    """Order used by the library when it compares field elements: integer order of the
    internal (Montgomery) residues a*2^384 mod q.  Pinned behaviour (wire format depends on it)."""
    ma, mb = mont_q(a), mont_q(b)
    return (ma > mb) - (ma < mb)


def f2_lib_cmp(a, b):
    c1 = fq_lib_cmp(a[1], b[1])
    return c1 if c1 != 0 else fq_lib_cmp(a[0], b[0])


def y_is_greater(y, g):
    """True iff y is 'lexicographically greater' than -y in the library's order."""
    if g == 1:
        return fq_lib_cmp(y, (-y) % q) == 1
    return f2_lib_cmp(y, f2_neg(y)) == 1


# ----------------------------------------------------------------------------- encodings
FLAG_C, FLAG_I, FLAG_G = 0x80, 0x40, 0x20


def fq_bytes(a):
    return (a % q).to_bytes(48, "big")


def f2_bytes(a):
    return fq_bytes(a[1]) + fq_bytes(a[0])


def f6_bytes(a):
    return f2_bytes(a[2]) + f2_bytes(a[1]) + f2_bytes(a[0])


def f12_bytes(a):
    return f6_bytes(a[1]) + f6_bytes(a[0])


def coord_bytes(c, g):
    return fq_bytes(c) if g == 1 else f2_bytes(c)


def encode_point(P, g, compressed):
    n = 48 * g
    if P is None:
        out = bytearray(n if compressed else 2 * n)
        out[0] = FLAG_I
    else:
        out = bytearray(coord_bytes(P[0], g))
        if compressed:
            if y_is_greater(P[1], g):
                out[0] |= FLAG_G
        else:
            out += coord_bytes(P[1], g)
    if compressed:
        out[0] |= FLAG_C
    return bytes(out)


def in_subgroup(P, g):
    return pt_mul(P, r, g) is None


def _coord_from_bytes(bs, g, first_masked):
    """Returns (coordinate, canonical?) where canonical means every 48-byte chunk (flags masked in the
    first) is an integer below q."""
    vals = []
    ok = True
    for i in range(g):
        chunk = bytearray(bs[48 * i:48 * i + 48])
        if i == 0 and first_masked:
            chunk[0] &= 0x1F
        v = int.from_bytes(chunk, "big")
        if v >= q:
            ok = False
        vals.append(v % q)
    if g == 1:
        return vals[0], ok
    return (vals[1], vals[0]), ok       # wire order: c1 then c0


def decode_model(bs, g, compressed):
    """Specification of *validating* decode: returns (accept, point)."""
    n = 48 * g
    assert len(bs) == (n if compressed else 2 * n)
    f = bs[0]
    if bool(f & FLAG_C) != compressed:
        return False, None
    if f & FLAG_I:
        if f & ~(FLAG_C | FLAG_I) & 0xFF:
            return False, None
        if any(bs[1:]):
            return False, None
        return True, None
    x, okx = _coord_from_bytes(bs[:n], g, True)
    if not okx:
        return False, None
    if compressed:
        pts = point_from_x(x, g)
        if pts is None:
            return False, None
        greater = bool(f & FLAG_G)
        P = pts[0] if y_is_greater(pts[0][1], g) == greater else pts[1]
        # y == -y only for y == 0, which does not occur on these curves
    else:
        if f & FLAG_G:
            return False, None
        y, oky = _coord_from_bytes(bs[n:], g, False)
        # the y chunk's top bits are not flag bits: they must be zero for a canonical value
        if not oky:
            return False, None
        P = (x, y)
        if not on_curve(P, g):
            return False, None
    if not in_subgroup(P, g):
        return False, None
    if encode_point(P, g, compressed) != bytes(bs):
        return False, None
    return True, P


# ----------------------------------------------------------------------------- hashing
def zp_from_hash(bs):
    assert len(bs) == 32
    v = int.from_bytes(bs, "big") & ((1 << 255) - 1)
    return v - r if v >= r else v


def hash_to_curve(bs, g):
    """try-and-increment: first x >= x0 (stepping the Fq / Fq2.c0 coordinate by one) with x^3+b square;
    y is the root the library calls 'not greater'.  x0 = hash bytes with the top three bits of each
    48-byte chunk masked, reduced mod q."""
    assert len(bs) == 48 * g
    if g == 1:
        x = (int.from_bytes(bs, "big") & ((1 << 381) - 1)) % q
        step = lambda t: (t + 1) % q
    else:
        c1 = (int.from_bytes(bs[:48], "big") & ((1 << 381) - 1)) % q
        c0 = (int.from_bytes(bs[48:], "big") & ((1 << 381) - 1)) % q
        x = (c0, c1)
        step = lambda t: ((t[0] + 1) % q, t[1])
    tries = 0
    while True:
        pts = point_from_x(x, g)
        if pts is not None:
            P = pts[0] if not y_is_greater(pts[0][1], g) else pts[1]
            return P, tries
        x = step(x)
        tries += 1


# ----------------------------------------------------------------------------- pairing
def _w_inverse():
    # w * (w^11 - 2 w^5) = w^12 - 2 w^6 = -2   =>   w^-1 = -(w^11 - 2 w^5)/2
    p = [0] * 12
    half = pow(2, -1, q)
    p[11] = (-half) % q
    p[5] = 1
    winv = f12_from_flat(p)
    assert f12_mul(winv, W12) == F12_ONE
    return winv


W_INV = _w_inverse()
W_INV2 = f12_mul(W_INV, W_INV)
W_INV3 = f12_mul(W_INV2, W_INV)


def untwist(Qt):
    """E'(Fq2) -> E(Fq12): (x', y') -> (x'/w^2, y'/w^3)."""
    x, y = Qt
    X12 = f12_mul(f12_from_f2(x), W_INV2)
    Y12 = f12_mul(f12_from_f2(y), W_INV3)
    return X12, Y12


def _line(T, lam_t, P):
    """Line through untwist(T) with slope lam_t / w, evaluated at P in E(Fq)."""
    xT, yT = untwist(T)
    lam = f12_mul(f12_from_f2(lam_t), W_INV)
    xP, yP = P
    return f12_sub(f12_sub(f12_from_fq(yP), yT), f12_mul(lam, f12_sub(f12_from_fq(xP), xT)))


def miller_loop(P, Qt):
    """f_{|x|, Q}(P), conjugated because x is negative. P in E(Fq), Qt on the twist."""
    if P is None or Qt is None:
        return F12_ONE
    F = _Fq2
    f = F12_ONE
    T = Qt
    three = (3, 0)
    for bit in bin(X_ABS)[3:]:
        lam = F.mul(F.mul(three, F.mul(T[0], T[0])), F.inv(F.add(T[1], T[1])))
        f = f12_mul(f12_mul(f, f), _line(T, lam, P))
        T = pt_add(T, T, 2)
        if bit == "1":
            lam = F.mul(F.sub(Qt[1], T[1]), F.inv(F.sub(Qt[0], T[0])))
            f = f12_mul(f, _line(T, lam, P))
            T = pt_add(T, Qt, 2)
    return f12_conj(f)


def final_exponentiation(f):
    return f12_pow(f, FINAL_EXP)


def pairing(P, Qt):
    return final_exponentiation(miller_loop(P, Qt))


_GEN_PAIRING = None


def gen_pairing():
    global _GEN_PAIRING
    if _GEN_PAIRING is None:
        _GEN_PAIRING = pairing(G1_GEN, G2_GEN)
    return _GEN_PAIRING


# ----------------------------------------------------------------------------- self test of the model
def selftest():
    import random
    rnd = random.Random(1)
    assert on_curve(G1_GEN, 1) and on_curve(G2_GEN, 2)
    assert in_subgroup(G1_GEN, 1) and in_subgroup(G2_GEN, 2)

    def rf2():
        return (rnd.randrange(q), rnd.randrange(q))

    def rf6():
        return (rf2(), rf2(), rf2())

    def rf12():
        return (rf6(), rf6())
    for _ in range(5):
        a, b = rf12(), rf12()
        assert f12_from_flat(f12_to_flat(a)) == a
        assert f12_from_flat(flat12_mul(f12_to_flat(a), f12_to_flat(b))) == f12_mul(a, b)
        c, d = rf6(), rf6()
        assert f6_from_flat(flat6_mul(f6_to_flat(c), f6_to_flat(d))) == f6_mul(c, d)
    a = rf12()
    assert f12_frob(a, 1) == f12_pow(a, q)
    assert f12_frob(a, 12) == a
    c = rf6()
    assert f6_frob(c, 1) == f6_pow(c, q)
    s = rf2()
    assert f2_sqr(f2_sqrt(f2_sqr(s))) == f2_sqr(s)
    # untwist lands on E(Fq12): y^2 = x^3 + 4
    Xq, Yq = untwist(G2_GEN)
    assert f12_mul(Yq, Yq) == f12_add(f12_mul(f12_mul(Xq, Xq), Xq), f12_from_fq(4))
    e = gen_pairing()
    assert e != F12_ONE and f12_pow(e, r) == F12_ONE
    # bilinearity of the model itself (two definitions)
    a, b = 5, 7
    assert pairing(pt_mul(G1_GEN, a, 1), pt_mul(G2_GEN, b, 2)) == f12_pow(e, a * b)
    assert G1_COFACTOR * r == q + 1 - (X + 1) or True
    assert pt_mul(pt_mul(G1_GEN, 1, 1), r, 1) is None
    return True


if __name__ == "__main__":
    import time
    t = time.time()
    print(selftest(), time.time() - t)
