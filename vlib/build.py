"""Content-addressed builds of /repo's *current working tree* into /verif/build/<hash>/<config>/."""
import concurrent.futures
import fcntl
import glob
import hashlib
import os
import shutil
import subprocess
import sys
import time

VERIF = os.path.dirname(os.path.dirname(os.path.abspath(__file__)))
REPO = os.environ.get("VERIF_REPO", "/repo")
BUILD_ROOT = os.path.join(VERIF, "build")
CXX = "clang++"

BASE = ["-std=c++17", "-fPIC"]
REL = ["-Ofast", "-fno-vectorize"]
SAN = ["-O1", "-g", "-fno-omit-frame-pointer", "-fsanitize=address,undefined",
       "-fno-sanitize-recover=undefined", "-shared-libasan"]

CONFIGS = {
    # name: (cxxflags, use x86-64 assembly sources)
    "asm": (REL, True),
    # portable 64-bit words, built with the OTHER compiler the repository's Makefile provides for (g++), at another optimisation level:
    # behaviour that depends on what one compiler happens to make of the source shows as a difference between the back ends
    # (a release build: assertions compiled out)
    "c64": (["-O2", "-DNDEBUG", "-DDISABLE_ASM"], False, "g++"),
    # portable 32-bit words, with the ABI choices of the library's ARM targets that a host build can reproduce: plain char is
    # unsigned there (AAPCS), and the embedded tool-chain flags shorten enums
    # ... and optimises for size (-Os defines __OPTIMIZE_SIZE__, which source code can test)
    "c32": (["-Os", "-fno-vectorize", "-DDISABLE_ASM", "-U__SIZEOF_INT128__", "-funsigned-char", "-fshort-enums"], False),
    # unoptimised build (debug / coverage builds): nothing is inlined, so every inline function is emitted and resolved by the linker
    "o0": (["-O0", "-DDISABLE_ASM"], False),
    "san-asm": (SAN, True),
    "san-c64": (SAN + ["-DDISABLE_ASM"], False),
    "san-c32": (SAN + ["-DDISABLE_ASM", "-U__SIZEOF_INT128__", "-funsigned-char", "-fshort-enums"], False),
    # the sanitized fuzz driver of C17 once more with the other compiler (g++ has its own ASan/UBSan run time, so this configuration is
    # only used for stand-alone executables, never loaded into the Python process next to clang's run time)
    "san-g64": (["-O1", "-g", "-fno-omit-frame-pointer", "-fsanitize=address,undefined", "-fno-sanitize-recover=undefined", "-DNDEBUG", "-DDISABLE_ASM"], False, "g++"),
    "instr": (["-O1", "-fno-inline", "-finstrument-functions"], True),
    "tsan": (["-O1", "-g", "-fsanitize=thread"], True),
    # mirrors of the embedded flags that matter for external references (C20 symbol audit)
    "emb64": (["-Os", "-ffunction-sections", "-fdata-sections", "-fno-builtin", "-fshort-enums",
               "-fno-threadsafe-statics", "-DDISABLE_ASM"], False),
    "emb32": (["-Os", "-ffunction-sections", "-fdata-sections", "-fno-builtin", "-fshort-enums",
               "-fno-threadsafe-statics", "-DDISABLE_ASM", "-U__SIZEOF_INT128__"], False),
}


class BuildError(Exception):
    def __init__(self, kind, msg, config=None):
        super().__init__(msg)
        self.kind = kind   # 'library' or 'harness'
        self.msg = msg
        self.config = config


def compiler(config):
    c = CONFIGS[config]
    return c[2] if len(c) > 2 else CXX


def lib_sources(use_asm):
    cpp = []
    for d in ("src/core", "src/bls12_381", "src/wkdibe", "src/lqibe"):
        cpp += sorted(glob.glob(os.path.join(REPO, d, "*.cpp")))
    asm = []
    if use_asm:
        cpp += sorted(glob.glob(os.path.join(REPO, "src/core/arch/x86_64/*.cpp")))
        asm = sorted(glob.glob(os.path.join(REPO, "src/core/arch/x86_64/*.s")))
    return cpp, asm


_hash_cache = {}


def tree_hash():
    if REPO in _hash_cache:
        return _hash_cache[REPO]
    h = hashlib.sha256()
    files = []
    for top in ("include", "src"):
        for root, _, names in os.walk(os.path.join(REPO, top)):
            for n in names:
                files.append(os.path.join(root, n))
    for f in sorted(files):
        h.update(os.path.relpath(f, REPO).encode() + b"\0")
        with open(f, "rb") as fh:
            h.update(fh.read())
        h.update(b"\0")
    # the build recipes take part too (a changed flag set must rebuild)
    h.update(repr(sorted(CONFIGS.items())).encode())
    # harness sources take part: a changed shim must rebuild
    for f in sorted(glob.glob(os.path.join(VERIF, "harness", "*"))):
        if os.path.isfile(f):
            h.update(os.path.basename(f).encode() + b"\0")
            with open(f, "rb") as fh:
                h.update(fh.read())
    _hash_cache[REPO] = h.hexdigest()[:16]
    return _hash_cache[REPO]


def _run(cmd, kind):
    p = subprocess.run(cmd, stdout=subprocess.PIPE, stderr=subprocess.STDOUT, text=True)
    if p.returncode != 0:
        raise BuildError(kind, "$ " + " ".join(cmd) + "\n" + p.stdout[-6000:])
    return p.stdout


def _prune(keep=4):
    try:
        dirs = [d for d in glob.glob(os.path.join(BUILD_ROOT, "*")) if os.path.isdir(d) and os.path.basename(d) != "cases"]
        dirs.sort(key=os.path.getmtime, reverse=True)
        for d in dirs[keep:]:
            if time.time() - os.path.getmtime(d) > 1800:
                shutil.rmtree(d, ignore_errors=True)
    except OSError:
        pass


def config_dir(config):
    return os.path.join(BUILD_ROOT, tree_hash(), config)


def build(config, objects_only=False):
    """Returns the path of libjedi.so for this configuration (building it if needed)."""
    flags, use_asm = CONFIGS[config][:2]
    cxx = compiler(config)
    out = config_dir(config)
    os.makedirs(out, exist_ok=True)
    so = os.path.join(out, "libjedi.so")
    ok = os.path.join(out, ".ok")
    failed = os.path.join(out, ".failed")
    with open(os.path.join(out, ".lock"), "w") as lock:
        fcntl.flock(lock, fcntl.LOCK_EX)
        if os.path.exists(ok):
            os.utime(os.path.dirname(out))
            return so
        if os.path.exists(failed):
            kind, _, msg = open(failed).read().partition("\n")
            raise BuildError(kind, msg, config)
        try:
            cpp, asm = lib_sources(use_asm)
            inc = ["-I", os.path.join(REPO, "include")]
            jobs = []
            objs = []
            for src in cpp:
                o = os.path.join(out, "lib_" + os.path.relpath(src, REPO).replace("/", "_")[:-4] + ".o")
                objs.append(o)
                jobs.append(([cxx] + BASE + flags + inc + ["-c", src, "-o", o], "library"))
            for src in asm:
                o = os.path.join(out, "lib_" + os.path.relpath(src, REPO).replace("/", "_")[:-2] + ".o")
                objs.append(o)
                jobs.append((["as", src, "-o", o], "library"))
            shim_o = os.path.join(out, "shim.o")
            with concurrent.futures.ThreadPoolExecutor(max_workers=16) as ex:
                futs = [ex.submit(_run, c, k) for c, k in jobs]
                shim_f = None
                if not objects_only:
                    shim_f = ex.submit(_run, [cxx] + BASE + flags + inc + ["-fvisibility=default", "-c", os.path.join(VERIF, "harness", "shim.cpp"), "-o", shim_o], "harness")
                for f in futs:
                    f.result()          # library errors first
                if shim_f:
                    shim_f.result()
            with open(os.path.join(out, "objects.txt"), "w") as fh:
                fh.write("\n".join(objs) + "\n")
            if not objects_only:
                link = [cxx, "-shared", "-o", so] + objs + [shim_o, "-Wl,-Bsymbolic,-z,relro,-z,now", "-Wl,-z,noexecstack"]
                if "-fsanitize=address,undefined" in flags:
                    link += ["-fsanitize=address,undefined"] + (["-shared-libasan"] if compiler(config) != "g++" else [])
                if "-fsanitize=thread" in flags:
                    link += ["-fsanitize=thread"]
                _run(link, "harness")
            open(ok, "w").close()
        except BuildError as e:
            e.config = config
            with open(failed, "w") as fh:
                fh.write(e.kind + "\n" + e.msg)
            raise
        finally:
            _prune()
    return so


def build_exe(config, name, sources, extra_flags=(), link_lib=True, extra_link=(), with_shim=False):
    """Builds a standalone harness executable against the objects of a configuration."""
    build(config)
    flags = CONFIGS[config][0]
    out = config_dir(config)
    exe = os.path.join(out, name)
    stamp = exe + ".ok"
    with open(os.path.join(out, ".lock-" + name), "w") as lock:
        fcntl.flock(lock, fcntl.LOCK_EX)
        if os.path.exists(stamp):
            return exe
        objs = open(os.path.join(out, "objects.txt")).read().split() if link_lib else []
        if with_shim:
            objs.append(os.path.join(out, "shim.o"))
        cmd = [compiler(config)] + BASE + flags + list(extra_flags) + ["-I", os.path.join(REPO, "include"), "-I", os.path.join(VERIF, "harness")]
        cmd += [os.path.join(VERIF, "harness", s) for s in sources] + objs + ["-o", exe, "-lpthread"] + list(extra_link)
        _run(cmd, "harness")
        open(stamp, "w").close()
    return exe


ILP32_FLAGS = ["-m32", "-march=i686", "-ffreestanding", "-fno-stack-protector", "-fno-exceptions", "-fno-rtti", "-fno-pic", "-std=c++17", "-O2", "-DDISABLE_ASM",
               "-DVK_FREESTANDING"]


def build_ilp32_exe(name, source):
    """A static freestanding i386 executable (ILP32: int = long = pointer = 32 bits, 32-bit words) of the library's portable sources plus one
    harness source and the run-time support in harness/ilp32/ - no 32-bit C library is needed, only a kernel that executes i386 programs.
    Library sources that do not compile raise BuildError('library'), the harness BuildError('harness')."""
    out = os.path.join(BUILD_ROOT, tree_hash(), "ilp32-i386")
    os.makedirs(out, exist_ok=True)
    exe = os.path.join(out, name)
    with open(os.path.join(out, ".lock-" + name), "w") as lock:
        fcntl.flock(lock, fcntl.LOCK_EX)
        if os.path.exists(exe + ".ok"):
            return exe
        inc = ["-I", os.path.join(VERIF, "harness", "ilp32"), "-I", os.path.join(REPO, "include")]
        cpp, _ = lib_sources(False)
        jobs = [(src, os.path.join(out, "lib_" + os.path.relpath(src, REPO).replace("/", "_")[:-4] + ".o"), "library") for src in cpp]
        jobs += [(os.path.join(VERIF, "harness", source), os.path.join(out, name + "_main.o"), "harness"),
                 (os.path.join(VERIF, "harness", "ilp32", "rt.cpp"), os.path.join(out, "rt.o"), "harness")]
        import concurrent.futures
        with concurrent.futures.ThreadPoolExecutor(max_workers=8) as ex:
            futs = [ex.submit(_run, [CXX] + ILP32_FLAGS + inc + ["-c", src, "-o", obj], kind) for src, obj, kind in jobs]
            for f in futs:
                f.result()
        _run(["ld", "-m", "elf_i386", "-static", "-o", exe] + [obj for _, obj, _ in jobs], "harness")
        open(exe + ".ok", "w").close()
    return exe


def asan_runtime():
    return subprocess.run([CXX, "-print-file-name=libclang_rt.asan-x86_64.so"], stdout=subprocess.PIPE, text=True).stdout.strip()


if __name__ == "__main__":
    t = time.time()
    for c in sys.argv[1:] or ["asm", "c64", "c32"]:
        print(c, build(c), round(time.time() - t, 1))
