"""WKD-IBE layer for engine B: native objects (ctypes buffers laid out with the library's own offsets), the 15-line pattern
model, permitted-list enumeration, history replay on the real code and the key invariant."""
import ctypes
import itertools

from . import alpha, ffi, ref

r = ref.r
FREE, HID = "free", "hid"
MARK = "H:"      # entry content "H:<value name>": omitFromKeys = true AND a non-zero id.  Key-side operations must ignore the id (the slot is
                 # hidden exactly as with id 0); precompute / encrypt / sign / verify must ignore the flag (the id counts)


def is_hidden(c):
    """entry content that the key-side operations treat as a hidden slot"""
    return c == HID or (isinstance(c, str) and c.startswith(MARK))


def entry_value(c, vals):
    """the id an entry carries on the wire (what precompute / encrypt / verify use)"""
    if c == HID:
        return 0
    if isinstance(c, str) and c.startswith(MARK):
        return vals[c[len(MARK):]]
    return vals[c] if isinstance(c, str) else int(c)


# ------------------------------------------------------------------------------------------------ values and lists
def values(seed):
    f = alpha.fillers(seed, "wkval", 2, r)
    # "sp": an id with all-zero machine words below non-zero ones (64-bit words [0,3,0,1]; 32-bit words [0,0,3,0,0,0,1,0]): word-skipping
    # shortcuts of the scalar multiplications see it
    return {"v1": f[0], "v2": f[1], "0": 0, "r+v1": r + f[0], "max": 2**256 - 1, "r": r, "1": 1, "sp": (1 << 192) + (3 << 64)}


def list_alphabet(l, names, omit_flags=(False, True), marked=("v1",)):
    """all attribute lists: per slot absent / value name / hidden (id 0) / hidden carrying a non-zero id; x omitAllFromKeysUnlessPresent"""
    per = [None] + list(names) + [HID] + [MARK + n for n in marked]
    out = []
    for combo in itertools.product(per, repeat=l):
        ents = [[i, c] for i, c in enumerate(combo) if c is not None]
        for om in omit_flags:
            out.append({"e": ents, "omit": om})
    return out


def lkey(L):
    return (tuple(tuple(e) for e in L["e"]), L["omit"])


# ------------------------------------------------------------------------------------------------ pattern model
def norm(vname, vals):
    """slot content for a valued entry: fixed value mod r, or hidden when the value is 0 mod r (h^0 contributes nothing and
    no b element is kept: exactly a hidden slot)"""
    v = vals[vname] % r
    return HID if v == 0 else v


def model_keygen(l, L, vals):
    ents = {i: c for i, c in L["e"]}
    pat = []
    for i in range(l):
        if i in ents:
            pat.append(HID if is_hidden(ents[i]) else norm(ents[i], vals))
        else:
            pat.append(HID if L["omit"] else FREE)
    return tuple(pat)


def permitted(pattern, L, vals):
    ents = {i: c for i, c in L["e"]}
    for i, s in enumerate(pattern):
        c = ents.get(i)
        if s == FREE:
            continue
        if s == HID:
            if c is not None and not is_hidden(c) and vals[c] % r != 0:
                return False
        else:
            if c is None or is_hidden(c) or vals[c] % r != s:
                return False
    return True


def model_qualify(pattern, L, vals):
    ents = {i: c for i, c in L["e"]}
    pat = []
    for i, s in enumerate(pattern):
        c = ents.get(i)
        if s == FREE:
            if c is None:
                pat.append(HID if L["omit"] else FREE)
            elif is_hidden(c):
                pat.append(HID)
            else:
                pat.append(norm(c, vals))
        else:
            pat.append(s)
    return tuple(pat)


def model_step(state, op, l, vals):
    """state: None (master) or (kind, pattern). Returns successor (kind, pattern) or None if the op is not enabled/permitted."""
    name = op[0]
    if state is None:
        if name == "keygen":
            return ("d", model_keygen(l, op[1], vals))
        if name == "ndkeygen":
            return ("n", model_keygen(l, op[1], vals))
        return None
    kind, pat = state
    if name in ("qualify", "ndqualify"):
        if not permitted(pat, op[1], vals):
            return None
        return ("d" if name == "qualify" else "n", model_qualify(pat, op[1], vals))
    if name == "resample":
        return ("d", pat if op[1] else tuple(HID if s == FREE else s for s in pat))
    if name == "adjust":
        if not permitted(pat, op[1], vals) or not permitted(pat, op[2], vals):
            return None
        return ("n", model_qualify(pat, op[2], vals))
    return None


def pattern_list(pattern):
    """the attribute list a ciphertext for exactly this pattern carries: fixed slots with their values"""
    return [(i, s) for i, s in enumerate(pattern) if s not in (FREE, HID)]


def free_slots(pattern):
    return [i for i, s in enumerate(pattern) if s == FREE]


def reachable(l, names, vals, ops=("keygen", "ndkeygen", "qualify", "ndqualify", "resample"), witnesses=1):
    """pure-model BFS: {abstract state: [witness histories]} (shortest first)"""
    lists = list_alphabet(l, names)
    seen = {}
    frontier = []
    for L in lists:
        for name in ("keygen", "ndkeygen"):
            if name in ops:
                s = model_step(None, [name, L], l, vals)
                if len(seen.setdefault(s, [])) < witnesses:
                    seen[s].append([[name, L]])
                    if len(seen[s]) == 1:
                        frontier.append(s)
    while frontier:
        nxt = []
        for s in frontier:
            h = seen[s][0]
            succ = []
            for L in lists:
                for name in ("qualify", "ndqualify"):
                    if name in ops:
                        succ.append([name, L])
            if "resample" in ops:
                succ += [["resample", True], ["resample", False]]
            for op in succ:
                t = model_step(s, op, l, vals)
                if t is None:
                    continue
                if len(seen.setdefault(t, [])) < witnesses:
                    hist = h + [op]
                    if hist not in seen[t]:
                        seen[t].append(hist)
                    if len(seen[t]) == 1:
                        nxt.append(t)
        frontier = nxt
    return seen


# ------------------------------------------------------------------------------------------------ native objects
class Native:
    """offsets and constructors for one loaded library"""

    def __init__(self, L):
        self.L = L
        self.off = {}
        fo = L.f("vk_offsetof")
        fo.restype = ctypes.c_long
        for n in ("wk_attribute.id", "wk_attribute.idx", "wk_attribute.omitFromKeys", "wk_attributelist.attrs", "wk_attributelist.length",
                  "wk_attributelist.omitAllFromKeysUnlessPresent", "wk_params.g", "wk_params.g1", "wk_params.g2", "wk_params.g3", "wk_params.pairing",
                  "wk_params.hsig", "wk_params.signatures", "wk_params.h", "wk_params.l", "wk_ciphertext.a", "wk_ciphertext.b", "wk_ciphertext.c",
                  "wk_signature.a0", "wk_signature.a1", "wk_freeslot.hexp", "wk_freeslot.idx", "wk_secretkey.a0", "wk_secretkey.a1", "wk_secretkey.l",
                  "wk_secretkey.signatures", "wk_secretkey.bsig", "wk_secretkey.b", "wk_masterkey.g2alpha", "wk_precomputed.prodexp"):
            v = fo(n.encode())
            assert v >= 0, n
            self.off[n] = v
        self.sz = L.size

    # ---- attribute lists
    def attrlist(self, L, vals):
        """returns (buffer of AttributeList, keepalive)"""
        ents = L["e"]
        asz = self.sz["wk_attribute"]
        arr = self.L.buf(max(1, asz * len(ents)))
        for k, (idx, c) in enumerate(ents):
            base = asz * k
            v = entry_value(c, vals)
            ctypes.memmove(ctypes.byref(arr, base + self.off["wk_attribute.id"]), (v % 2**256).to_bytes(32, "little"), 32)
            ctypes.memmove(ctypes.byref(arr, base + self.off["wk_attribute.idx"]), int(idx).to_bytes(4, "little"), 4)
            ctypes.memmove(ctypes.byref(arr, base + self.off["wk_attribute.omitFromKeys"]), b"\x01" if is_hidden(c) else b"\x00", 1)
        al = self.L.buf(self.sz["wk_attributelist"])
        ctypes.memmove(ctypes.byref(al, self.off["wk_attributelist.attrs"]), ctypes.addressof(arr).to_bytes(8, "little"), 8)
        ctypes.memmove(ctypes.byref(al, self.off["wk_attributelist.length"]), len(ents).to_bytes(8, "little"), 8)
        ctypes.memmove(ctypes.byref(al, self.off["wk_attributelist.omitAllFromKeysUnlessPresent"]), b"\x01" if L["omit"] else b"\x00", 1)
        al._keep = arr
        return al

    def attrlist_shared(self, La, Lb, vals):
        """two list HEADERS over ONE attribute array (what `to = from; to.length = n; to.omit... = true` produces in caller code): possible when
        the entries of one list are a prefix of the other's. Returns (header a, header b) or None. The headers keep their own length and
        omitAllFromKeysUnlessPresent."""
        ea, eb = [list(e) for e in La["e"]], [list(e) for e in Lb["e"]]
        longer, shorter = (ea, eb) if len(ea) >= len(eb) else (eb, ea)
        if longer[:len(shorter)] != shorter:
            return None
        big = self.attrlist({"e": longer, "omit": False}, vals)
        arr = big._keep
        out = []
        for Lx in (La, Lb):
            al = self.L.buf(self.sz["wk_attributelist"])
            ctypes.memmove(ctypes.byref(al, self.off["wk_attributelist.attrs"]), ctypes.addressof(arr).to_bytes(8, "little"), 8)
            ctypes.memmove(ctypes.byref(al, self.off["wk_attributelist.length"]), len(Lx["e"]).to_bytes(8, "little"), 8)
            ctypes.memmove(ctypes.byref(al, self.off["wk_attributelist.omitAllFromKeysUnlessPresent"]), b"\x01" if Lx["omit"] else b"\x00", 1)
            al._keep = arr
            out.append(al)
        return tuple(out)

    def plain_list(self, pairs):
        """attribute list for encryption/signing from [(idx, integer value)] or [(idx, integer value, marked)]: a marked entry has
        omitFromKeys set, which precompute / encrypt / sign / verify must ignore"""
        return self.attrlist({"e": [[p[0], (MARK if len(p) > 2 and p[2] else "") + str(p[1])] for p in pairs], "omit": False}, _IntVals())


class _IntVals(dict):
    def __missing__(self, k):
        return int(k)


CANARY = 0x5C


class Params:
    def __init__(self, N, l):
        self.N, self.l = N, l
        self.buf = N.L.buf(N.sz["wk_params"])
        self.h = N.L.buf(max(1, N.sz["g1"] * l))
        ctypes.memmove(ctypes.byref(self.buf, N.off["wk_params.h"]), ctypes.addressof(self.h).to_bytes(8, "little"), 8)

    def field(self, name, size):
        o = self.N.off["wk_params." + name]
        return self.buf.raw[o:o + size]

    def hi(self, i):
        s = self.N.sz["g1"]
        return self.h.raw[s * i:s * i + s]

    @property
    def signatures(self):
        return self.buf.raw[self.N.off["wk_params.signatures"]] != 0


class SecretKey:
    """SecretKey struct + a b array with exactly `slots` entries followed by canary slots"""
    GUARD = 3

    def __init__(self, N, slots):
        self.N = N
        self.slots = slots
        fs = N.sz["wk_freeslot"]
        self.buf = N.L.buf(N.sz["wk_secretkey"])
        self.b = ctypes.create_string_buffer(bytes([CANARY]) * (fs * (slots + self.GUARD)), fs * (slots + self.GUARD))
        ctypes.memmove(ctypes.byref(self.buf, N.off["wk_secretkey.b"]), ctypes.addressof(self.b).to_bytes(8, "little"), 8)

    def field(self, name, size):
        o = self.N.off["wk_secretkey." + name]
        return self.buf.raw[o:o + size]

    @property
    def l(self):
        return int.from_bytes(self.field("l", 4), "little", signed=True)

    @property
    def signatures(self):
        return self.field("signatures", 1)[0] != 0

    def slot(self, i):
        fs = self.N.sz["wk_freeslot"]
        raw = self.b.raw[fs * i:fs * i + fs]
        idx = int.from_bytes(raw[self.N.off["wk_freeslot.idx"]:self.N.off["wk_freeslot.idx"] + 4], "little")
        return idx, raw[self.N.off["wk_freeslot.hexp"]:self.N.off["wk_freeslot.hexp"] + self.N.sz["g1"]]

    def overrun(self):
        fs = self.N.sz["wk_freeslot"]
        tail = self.b.raw[fs * self.slots:]
        return any(c != CANARY for c in tail)

    def idxs(self):
        n = self.l
        if n < 0 or n > self.slots + self.GUARD:
            return None
        return [self.slot(i)[0] for i in range(n)]


class World:
    """one setup (params + master key) on one back end, with a deterministic random source"""

    def __init__(self, cfg, l, signatures, seed, rescale=True):
        self.cfg, self.l, self.sig, self.seed = cfg, l, signatures, seed
        self.L = ffi.lib(cfg)
        self.N = Native(self.L)
        self.vals = values(seed)
        self.rng = ffi.CounterRng("wk|%d|%d|%d" % (seed, l, int(signatures)))
        self.params = Params(self.N, l)
        self.msk = self.L.buf(self.N.sz["wk_masterkey"])
        self.L.call("embedded_pairing_wkdibe_setup", self.params.buf, self.msk, l, 1 if signatures else 0, self.rng.cb)
        self._al_cache = {}
        if rescale:
            self._rescale()

    def _rescale(self):
        """Re-expresses every group element of the public parameters and the master key in another Jacobian representation
        (X c^2, Y c^3, Z c) of the SAME point.  The scheme's results may not depend on the representation of its inputs (the library's
        in-memory group type is projective and nothing promises that setup's output is normalised); parameters straight from unmarshal
        (z = 1) are what C15 / C19 / C20 work with."""
        N, L = self.N, self.L
        cs = alpha.fillers(self.seed, "wk-rescale", 8, ref.q)

        def scale(raw, g, k):
            F = ref.FIELDS[g]
            c = cs[k % len(cs)] if g == 1 else (cs[k % len(cs)], cs[(k + 3) % len(cs)])
            x, y, z = L.unproj_raw(raw, g)
            if z == F.zero:
                return raw
            c2 = F.mul(c, c)
            return L.coord(F.mul(x, c2), g) + L.coord(F.mul(y, F.mul(c2, c)), g) + L.coord(F.mul(z, c), g)

        k = 0
        for name, g in (("g", 2), ("g1", 2), ("g2", 1), ("g3", 1), ("hsig", 1)):
            o = N.off["wk_params." + name]
            size = N.sz["g%d" % g]
            new = scale(self.params.buf.raw[o:o + size], g, k)
            ctypes.memmove(ctypes.byref(self.params.buf, o), new, len(new))
            k += 1
        s = N.sz["g1"]
        for i in range(self.l):
            new = scale(self.params.h.raw[s * i:s * i + s], 1, k)
            ctypes.memmove(ctypes.byref(self.params.h, s * i), new, len(new))
            k += 1
        o = N.off["wk_masterkey.g2alpha"]
        new = scale(self.msk.raw[o:o + s], 1, k)
        ctypes.memmove(ctypes.byref(self.msk, o), new, len(new))

    def al(self, Ls):
        return self.N.attrlist(Ls, self.vals)

    def al_pair(self, La, Lb, share=False):
        """native headers for two lists; share=True: over one attribute array when the entries allow it (else separate arrays)"""
        if share:
            sh = self.N.attrlist_shared(La, Lb, self.vals)
            if sh is not None:
                return sh
        return self.al(La), self.al(Lb)

    def newkey(self, slots):
        return SecretKey(self.N, max(0, slots))

    # ---- the operations, with the caller-side allocation protocol of the Go binding
    def apply(self, key, op, rng=None):
        """key: None (master) or SecretKey; returns (new SecretKey, aux)"""
        rng = rng or self.rng
        L, C = self.L, self.L.call
        name = op[0]
        if name in ("keygen", "ndkeygen", "qualify", "ndqualify"):
            Ls = op[1]
            out = self.newkey(self.l - len(Ls["e"]))
            al = self.al(Ls)
            if name == "keygen":
                C("embedded_pairing_wkdibe_keygen", out.buf, self.params.buf, self.msk, al, rng.cb)
            elif name == "ndkeygen":
                C("embedded_pairing_wkdibe_nondelegable_keygen", out.buf, self.params.buf, self.msk, al)
            elif name == "qualify":
                C("embedded_pairing_wkdibe_qualifykey", out.buf, self.params.buf, key.buf, al, rng.cb)
            else:
                C("embedded_pairing_wkdibe_nondelegable_qualifykey", out.buf, self.params.buf, key.buf, al)
            return out
        if name == "resample":
            out = self.newkey(key.l if op[1] else 0)
            pre = self.precompute_key_pattern(op[2])
            C("embedded_pairing_wkdibe_resamplekey", out.buf, self.params.buf, pre, key.buf, 1 if op[1] else 0, rng.cb)
            return out
        if name == "adjust":
            child = self.apply(key, ["ndqualify", op[1]])
            # Go: AdjustNonDelegable reallocates sk.b to parent.l slots
            out = self.newkey(key.l)
            for fld, size in (("a0", self.N.sz["g1"]), ("a1", self.N.sz["g2"]), ("l", 4), ("signatures", 1), ("bsig", self.N.sz["g1"])):
                o = self.N.off["wk_secretkey." + fld]
                ctypes.memmove(ctypes.byref(out.buf, o), child.buf.raw[o:o + size], size)
            fs = self.N.sz["wk_freeslot"]
            n = min(max(child.l, 0), out.slots)
            ctypes.memmove(out.b, child.b.raw[:fs * n], fs * n)
            alf, alt = self.al_pair(op[1], op[2], share=(len(op) > 3 and op[3] == "shared"))
            C("embedded_pairing_wkdibe_adjust_nondelegable", out.buf, key.buf, alf, alt)
            return out
        raise ValueError(name)

    def precompute_key_pattern(self, pattern):
        pre = self.L.buf(self.N.sz["wk_precomputed"])
        self.L.call("embedded_pairing_wkdibe_precompute", pre, self.params.buf, self.N.plain_list(pattern_list(pattern)))
        return pre

    def replay(self, history, rng=None):
        """replays a history (from the master) on fresh objects; resample ops get the model pattern appended"""
        key = None
        state = None
        for op in history:
            nxt = model_step(state, op, self.l, self.vals)
            assert nxt is not None, ("history not permitted", op)
            op2 = list(op)
            if op[0] == "resample":
                op2 = ["resample", op[1], state[1]]
            key = self.apply(key, op2, rng)
            state = nxt
        return key, state

    # ---- invariant
    def g1mul(self, P, k):
        return self.L.out("embedded_pairing_bls12_381_g1_multiply", self.N.sz["g1"], P, self.L.bi(k, 256))

    def g1add(self, A, B):
        return self.L.out("embedded_pairing_bls12_381_g1_add", self.N.sz["g1"], A, B)

    def aff1(self, P):
        return self.L.buf(self.N.sz["g1affine"], self.L.out("embedded_pairing_bls12_381_g1affine_from_projective", self.N.sz["g1affine"], P))

    def aff2(self, Q):
        return self.L.buf(self.N.sz["g2affine"], self.L.out("embedded_pairing_bls12_381_g2affine_from_projective", self.N.sz["g2affine"], Q))

    def pairing_ratio(self, P1, Q1, P2, Q2):
        """e(P1,Q1) / e(P2,Q2) for projective inputs"""
        L = self.L
        negP2 = L.out("embedded_pairing_bls12_381_g1_negate", self.N.sz["g1"], P2)
        a1, b1, a2, b2 = self.aff1(P1), self.aff2(Q1), self.aff1(negP2), self.aff2(Q2)
        sa = self.N.sz["affinepair"]
        pairs = L.buf(2 * sa)
        L.f("vk_affinepair_init")(ctypes.byref(pairs, 0), a1, b1, 0)
        L.f("vk_affinepair_init")(ctypes.byref(pairs, sa), a2, b2, 0)
        return L.out("embedded_pairing_bls12_381_pairing_sum", 576, pairs, ffi.sz(2), None, ffi.sz(0))

    def pattern_product(self, pattern):
        """g3 * prod h_i^{v_i} over fixed slots (projective G1)"""
        acc = self.params.field("g3", self.N.sz["g1"])
        for i, v in pattern_list(pattern):
            acc = self.g1add(acc, self.g1mul(self.params.hi(i), v))
        return acc

    def messages(self):
        e = ref.gen_pairing()
        f = alpha.fillers(self.seed, "wkmsg", 1, r)[0]
        return [self.L.f12(ref.f12_pow(e, 5)), self.L.f12(ref.f12_pow(e, f))]

    def encrypt(self, msg, pairs, rng=None):
        ct = self.L.buf(self.N.sz["wk_ciphertext"])
        self.L.call("embedded_pairing_wkdibe_encrypt", ct, msg, self.params.buf, self.N.plain_list(pairs), (rng or self.rng).cb)
        return ct

    def decrypt(self, ct, key):
        return self.L.out("embedded_pairing_wkdibe_decrypt", 576, ct, key.buf)

    def decrypt_master(self, ct):
        return self.L.out("embedded_pairing_wkdibe_decrypt_master", 576, ct, self.msk)

    def invariant(self, key, pattern, expect_sig=None, msgs_out=None):
        """I1..I4 of DESIGN.md C11 for one real key against the model pattern. Returns failure messages."""
        L, N = self.L, self.N
        out = []
        if key.overrun():
            out.append("I1: the free-slot array was overrun (more slots written than the binding allocates: l - len(attrs))")
        want = free_slots(pattern)
        got = key.idxs()
        if got != want:
            out.append("I1: key lists free slots %s, the accumulated pattern has %s" % (got, want))
        if key.signatures != self.sig:
            out.append("I4: signatures flag not propagated")
        one = L.const("fq12_one", 576)
        a0 = key.field("a0", N.sz["g1"])
        a1 = key.field("a1", N.sz["g2"])
        g = self.params.field("g", N.sz["g2"])
        # e(a0, g) / e(g3 prod h^v, a1) == e(g2, g1)
        ratio = self.pairing_ratio(a0, g, self.pattern_product(pattern), a1)
        if ratio != self.params.field("pairing", 576):
            out.append("I2: e(a0,g)/e(g3*prod h_i^v_i, a1) != e(g2,g1) for the accumulated pattern")
        if got is not None:
            # large parameter sets (the slot count as an operand): the per-slot pairing check is made on the boundary slots only
            keep = None
            if self.l > 8:
                keep = set(got[:2] + got[-2:]) | {i for i in got if i in (7, 8, 15, 16, 17, 31, 32, 33, 63, 64, 65, 127, 128, 255, 256)}
            for j, i in enumerate(got):
                if keep is not None and i not in keep and i < self.l:
                    continue
                if i >= self.l:
                    out.append("I1: free-slot index %d out of range" % i)
                    continue
                if self.pairing_ratio(key.slot(j)[1], g, self.params.hi(i), a1) != one:
                    out.append("I2: e(b[%d],g) != e(h_%d,a1)" % (j, i))
        if self.sig:
            if self.pairing_ratio(key.field("bsig", N.sz["g1"]), g, self.params.field("hsig", N.sz["g1"]), a1) != one:
                out.append("I2: e(bsig,g) != e(hsig,a1)")
        else:
            if not L.call("vk_g1_is_zero", key.field("bsig", N.sz["g1"])):
                out.append("I4: bsig not the identity without signature support")
        for m in self.messages():
            ct = self.encrypt(m, pattern_list(pattern))
            if self.decrypt(ct, key) != m:
                out.append("I3: the key does not decrypt a ciphertext encrypted to its own pattern")
                break
            if self.decrypt_master(ct) != m:
                out.append("I3: the master key does not decrypt")
                break
        return out


LONG_L = 65
LONG_N = [4, 5, 8, 9, 16, 17, 32, 33, 64, 65]


def long_list(n, l=LONG_L, names=("v1", "v2"), shift=0):
    """attribute list with n valued entries spread over l slots so that the lowest and the highest slot are used (the list LENGTH is an
    operand: batch sizes, narrow counters and bit masks over entries break at its boundary values)"""
    if n >= l:
        idx = list(range(l))
    else:
        idx = sorted(set([0, l - 1] + [(i * (l - 1)) // max(1, n - 1) for i in range(n)]))[:n]
        k = 1
        while len(idx) < n:
            if k not in idx:
                idx.append(k)
            k += 1
        idx = sorted(idx)
    return {"e": [[i, names[(j + shift) % len(names)]] for j, i in enumerate(idx)], "omit": False}


def pat_str(p):
    return "[" + ",".join("F" if s == FREE else ("H" if s == HID else "%x" % (s & 0xffff)) for s in p) + "]"
