"""Engine E: deviation-bounded enumeration of environment answers (the caller-supplied random source).

The random source is typed by request length: for a request of n bytes at request index i the default answer is
default(n, i); the alternatives come from menu(n). All answer sequences with at most `bound` deviations from the default
within the first `positions` requests are enumerated (stateless exploration: every sequence is a fresh execution)."""


class Divergence(Exception):
    pass


class Stream:
    def __init__(self, choices, default, menu, horizon=400):
        self.choices = dict(choices)      # request index -> alternative index (>= 1)
        self.default = default
        self.menu = menu
        self.requests = []
        self.horizon = horizon
        self.overrun = False

    def answer(self, n):
        i = len(self.requests)
        self.requests.append(n)
        if i >= self.horizon:
            self.overrun = True
            return b"\x01" * n
        if i in self.choices:
            alts = self.menu(n)
            alt = self.choices[i]
            if alt >= len(alts):
                raise Divergence("choice %d out of range at request %d (length %d)" % (alt, i, n))
            return alts[alt]
        return self.default(n, i)


class ScriptStream(Stream):
    """a fixed script for the first requests of a given length (answers as integers, little-endian), the default answer afterwards"""

    def __init__(self, script, length, default, horizon=400):
        super().__init__({}, default, lambda n: [None], horizon)
        self.script = list(script)
        self.length = length
        self.used = 0

    def answer(self, n):
        i = len(self.requests)
        self.requests.append(n)
        if i >= self.horizon:
            self.overrun = True
            return b"\x01" * n
        if n == self.length and self.used < len(self.script):
            v = self.script[self.used]
            self.used += 1
            return v.to_bytes(n, "little")
        return self.default(n, i)


class RunStream(Stream):
    """the first k requests (of whatever length) are answered with all-ones bytes - a value every sampler must reject - then the default
    answers: the LENGTH OF A REJECTION RUN as an operand (a pool of spare candidates, a retry counter, a give-up path break at some k)"""

    def __init__(self, k, default, horizon=400):
        super().__init__({}, default, lambda n: [None], horizon)
        self.k = k

    def answer(self, n):
        i = len(self.requests)
        self.requests.append(n)
        if i >= self.horizon:
            self.overrun = True
            return b"\x01" * n
        if i < self.k:
            return b"\xff" * n
        return self.default(n, i)


def explore(run, default, menu, bound, positions, root_filter=None, emit_root=True):
    """run(stream) executes the code under test once with stream.answer as its random source.
    Yields (choices, stream) for every execution."""
    def rec(choices, last, expect):
        st = Stream(choices, default, menu)
        run(st)
        if expect is not None and st.requests[:len(expect)] != expect:
            raise Divergence("request lengths diverged while replaying a prefix: %s vs %s" % (st.requests[:len(expect)], expect))
        if choices or emit_root:
            yield dict(choices), st
        if len(choices) >= bound:
            return
        for pos in range(last + 1, min(len(st.requests), positions)):
            if not choices and root_filter is not None and not root_filter(pos):
                continue
            nalts = len(menu(st.requests[pos]))
            for alt in range(1, nalts):
                c2 = dict(choices)
                c2[pos] = alt
                yield from rec(c2, pos, st.requests[:pos + 1])
    yield from rec({}, -1, None)
