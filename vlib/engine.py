"""Driver shared by all property checks.

A check module provides
    PROPERTY, LEVEL, RULE, ASSUMPTIONS
    shards(ctx)            -> list of JSON-able shard descriptors (a disjoint partition of the enumerated space)
    run_shard(ctx, shard)  -> enumerates the shard completely, calls ctx.ok()/ctx.fail() per case
    replay(ctx, case)      -> re-executes one recorded case; returns a list of failure messages ([] = holds)
    finish(ctx, merged)    -> optional: sanity checks on merged outcome counters (vacuity guards), extra coverage keys
"""
import collections
import json
import multiprocessing
import os
import sys
import time
import traceback

from . import build

VERIF = build.VERIF
OUTDIR = os.environ.get("VERIF_OUT", VERIF)      # evidence/ and replays/ go here (scratch runs against mutants redirect it)
TIER_DEADLINE = {"quick": 900.0, "thorough": 3600.0}


class Ctx:
    def __init__(self, prop, tier, seed, deadline):
        self.prop = prop
        self.tier = tier
        self.seed = seed
        self.deadline = deadline
        self.evaluations = 0
        self.nontrivial = 0
        self.outcomes = collections.Counter()
        self.failures = []
        self.nfail = 0
        self.samples = []
        self.capped = False
        self.extra = collections.Counter()
        self.notes = []

    # ---- called by run_shard
    def ok(self, nontrivial=True, outcome=None, n=1):
        self.evaluations += n
        if nontrivial:
            self.nontrivial += n
        if outcome is not None:
            self.outcomes[outcome] += n

    def sample(self, case, limit=3):
        if len(self.samples) < limit:
            self.samples.append(case)

    def fail(self, case, msg, sig=None):
        """case: JSON-able dict with at least 'sub' (sub-check name); replay(case) must reproduce."""
        self.nfail += 1
        if len(self.failures) < 40:
            self.failures.append({"case": case, "msg": msg, "sig": sig or case.get("sub", "?")})

    def time_left(self):
        return self.deadline - time.time()

    def out_of_time(self):
        if time.time() > self.deadline:
            self.capped = True
            return True
        return False

    def pack(self):
        return {"evaluations": self.evaluations, "nontrivial": self.nontrivial, "outcomes": dict(self.outcomes),
                "failures": self.failures, "nfail": self.nfail, "samples": self.samples, "capped": self.capped,
                "extra": dict(self.extra), "notes": self.notes}


_MODULE = None
_ARGS = None


def _init_worker(modname, args):
    global _MODULE, _ARGS
    import importlib
    _MODULE = importlib.import_module(modname)
    _ARGS = args


def _work(shard):
    prop, tier, seed, deadline = _ARGS
    ctx = Ctx(prop, tier, seed, deadline)
    try:
        if not ctx.out_of_time():
            _MODULE.run_shard(ctx, shard)
    except build.BuildError as e:
        return {"builderror": (e.kind, e.msg, e.config), "shard": shard}
    except Exception:
        return {"crash": traceback.format_exc(), "shard": shard}
    res = ctx.pack()
    for f in res["failures"]:
        f["shard"] = shard
    return res


def load_known():
    p = os.path.join(VERIF, "known_findings.json")
    if not os.path.exists(p):
        return []
    return json.load(open(p)).get("findings", [])


def _match_known(prop, sig, known):
    for k in known:
        if k.get("property") == prop and k.get("status") == "known" and k.get("signature") == sig:
            return k
    return None


def write_evidence(prop, tier, seed, level, coverage, assumptions, wall, violations):
    os.makedirs(os.path.join(OUTDIR, "evidence"), exist_ok=True)
    ev = {"property_id": prop, "tier": tier, "seed": seed, "level": level, "coverage": coverage,
          "assumptions": assumptions, "wall_s": round(wall, 2), "violations": violations}
    tmp = os.path.join(OUTDIR, "evidence", prop + ".json.tmp")
    with open(tmp, "w") as fh:
        json.dump(ev, fh, indent=1, default=str)
    os.replace(tmp, os.path.join(OUTDIR, "evidence", prop + ".json"))


def run(module, tier, seed, nproc=16):
    t0 = time.time()
    prop = module.PROPERTY
    deadline = t0 + float(os.environ.get("VERIF_DEADLINE", TIER_DEADLINE[tier]))
    main = Ctx(prop, tier, seed, deadline)
    try:
        if hasattr(module, "prepare"):
            module.prepare(main)
        shards = module.shards(main)
    except build.BuildError as e:
        return _build_failure(module, main, e, t0)
    merged = Ctx(prop, tier, seed, deadline)
    merged.extra.update(main.extra)
    results = []
    if nproc > 1 and len(shards) > 1:
        import concurrent.futures
        from concurrent.futures.process import BrokenProcessPool
        ctxmp = multiprocessing.get_context("fork")
        try:
            with concurrent.futures.ProcessPoolExecutor(max_workers=min(nproc, len(shards)), mp_context=ctxmp, initializer=_init_worker,
                                                        initargs=(module.__name__, (prop, tier, seed, deadline))) as pool:
                futs = {pool.submit(_work, s): s for s in shards}
                try:
                    # every shard checks the deadline between evaluations; one that has not returned HANG_GRACE seconds after it is
                    # stuck inside a single call
                    for fut in concurrent.futures.as_completed(futs, timeout=max(60.0, deadline - time.time()) + HANG_GRACE):
                        results.append(fut.result())
                except concurrent.futures.TimeoutError:
                    stuck = [s for f, s in futs.items() if not f.done()]
                    _kill_pool(pool)
                    return _worker_hung(module, main, stuck, ctxmp, t0)
        except BrokenProcessPool:
            return _worker_died(module, main, shards, ctxmp, t0)
    else:
        _init_worker(module.__name__, (prop, tier, seed, deadline))
        for s in shards:
            results.append(_work(s))
    for res in results:
        if "crash" in res:
            print("HARNESS-ERROR property=%s shard=%s\n%s" % (prop, json.dumps(res["shard"])[:200], res["crash"]))
            return 2
        if "builderror" in res:
            kind, msg, cfg = res["builderror"]
            return _build_failure(module, main, build.BuildError(kind, msg, cfg), t0)
        merged.evaluations += res["evaluations"]
        merged.nontrivial += res["nontrivial"]
        merged.outcomes.update(res["outcomes"])
        merged.extra.update(res["extra"])
        merged.nfail += res["nfail"]
        merged.failures += res["failures"]
        merged.notes += res["notes"]
        for s in res["samples"]:
            merged.sample(s, limit=6)
        merged.capped = merged.capped or res["capped"]

    extra_cov = {}
    if hasattr(module, "finish"):
        rc = module.finish(merged, extra_cov)
        if rc and not merged.failures:
            print("HARNESS-SANITY property=%s %s" % (prop, rc))
            return 2
        if rc:
            # a vacuity guard fired, but cases failed as well: the failures are the finding (a change that makes the library reject every
            # valid object empties an outcome class and fails the cases that expected acceptance)
            print("NOTE property=%s vacuity guard: %s (failing cases are reported below)" % (prop, rc))

    # ---- confirm failures by replaying each alone, twice
    known = load_known()
    violations = []
    known_hits = collections.OrderedDict()
    nondet = 0
    # at most 48 failing cases are confirmed by replay (one per signature first, then in order): a change that breaks everything would
    # otherwise spend its time replaying hundreds of equivalent failures one after the other
    seen_sig, first, rest = set(), [], []
    for f in merged.failures:
        (first if f["sig"] not in seen_sig else rest).append(f)
        seen_sig.add(f["sig"])
    for f in (first + rest)[:48]:
        try:
            r1 = module.replay(main, f["case"])
            r2 = module.replay(main, f["case"])
        except Exception:
            print("HARNESS-ERROR while replaying %s\n%s" % (json.dumps(f["case"])[:300], traceback.format_exc()))
            return 2
        if bool(r1) != bool(r2) or not r1:
            nondet += 1
            print("HARNESS-NONDETERMINISM property=%s case=%s first=%s replay=%s/%s" % (prop, json.dumps(f["case"])[:300], f["msg"], r1, r2))
            continue
        k = _match_known(prop, f["sig"], known)
        if k is not None:
            known_hits.setdefault(f["sig"], (k, f))
        else:
            violations.append(f)
    if nondet and not violations and not known_hits:
        # Nothing that failed during the exploration fails again when replayed alone.  Before the harness is blamed: the failing cases may
        # depend on the CALLS MADE BEFORE THEM in their shard (state the library keeps between calls - a cache, a memo).  The shard is a
        # deterministic call sequence; if it fails with the same signatures twice more, each time alone in a fresh process, the history
        # dependence is the library's and the shard is the replayable counterexample.
        ctxmp = multiprocessing.get_context("fork")
        tried = []
        for f in merged.failures:
            sh = f.get("shard")
            if sh is None or sh in tried:
                continue
            tried.append(sh)
            if len(tried) > 2:
                break
            sigs = []
            for _ in range(2):
                r = _shard_run(module, sh, ctxmp, (prop, tier, seed, time.time() + 600))
                sigs.append(sorted({g["sig"] for g in r["failures"]}) if r and "failures" in r else None)
            if sigs[0] and sigs[0] == sigs[1]:
                os.makedirs(os.path.join(OUTDIR, "replays"), exist_ok=True)
                path = os.path.join(OUTDIR, "replays", "%s-history.json" % prop)
                case = {"sub": "__shard__", "shard": sh}
                with open(path, "w") as fh:
                    json.dump({"property": prop, "tier": tier, "seed": seed, "signature": "history:" + sigs[0][0], "message": f["msg"], "case": case}, fh, indent=1)
                write_evidence(prop, tier, seed, module.LEVEL, {"evaluations": merged.evaluations, "distinct_nontrivial": merged.nontrivial, "rule": module.RULE, "samples": [case],
                               "exhaustive": False, "caps_hit": ["history-dependent failure"], "tree_hash": build.tree_hash()}, module.ASSUMPTIONS, time.time() - t0, 1)
                print("VIOLATION property=%s replay=%s  # history: %s - fails inside the call sequence of shard %s (twice more, alone in a fresh process) but not when the case is run on its own: "
                      "the result depends on earlier calls" % (prop, path, f["msg"][:200], json.dumps(sh)[:200]))
                return 1
        return 2
    if nondet:
        # some failures did not reproduce (their symptom depends on memory the call should not have read, say) while others fail
        # on every replay: the reproducible ones are reported; the others stay visible above but are not counted
        print("NOTE property=%s %d failing case(s) did not fail again on replay and are not reported as violations; %d did, every time" % (prop, nondet, len(violations) + len(known_hits)))
    os.makedirs(os.path.join(OUTDIR, "replays"), exist_ok=True)
    for sig, (k, f) in known_hits.items():
        print("KNOWN-FINDING: property=%s %s [%s]" % (prop, k.get("what", sig), sig))
    paths = []
    for i, f in enumerate(violations[:20]):
        path = os.path.join(OUTDIR, "replays", "%s-%d.json" % (prop, i))
        with open(path, "w") as fh:
            json.dump({"property": prop, "tier": tier, "seed": seed, "signature": f["sig"], "message": f["msg"], "case": f["case"]}, fh, indent=1)
        paths.append(path)
        print("VIOLATION property=%s replay=%s  # %s: %s" % (prop, path, f["sig"], f["msg"][:300]))
    wall = time.time() - t0
    coverage = {
        "evaluations": merged.evaluations,
        "distinct_nontrivial": merged.nontrivial,
        "rule": module.RULE,
        "samples": merged.samples[:6] or [{"note": "no sample recorded"}],
        "exhaustive": not merged.capped,
        "distinct_outcomes": len(merged.outcomes),
        "outcomes": dict(sorted(merged.outcomes.items(), key=lambda kv: -kv[1])[:60]),
        "failing_cases": merged.nfail,
        "known_finding_cases": sum(1 for f in merged.failures if _match_known(prop, f["sig"], known)),
        "failure_signatures": dict(collections.Counter(f["sig"] for f in merged.failures)),
        "caps_hit": ["deadline"] if merged.capped else [],
        "tree_hash": build.tree_hash(),
    }
    coverage.update(extra_cov)
    write_evidence(prop, tier, seed, module.LEVEL, coverage, module.ASSUMPTIONS, wall, len(violations))
    print("%s tier=%s evaluations=%d distinct_nontrivial=%d outcomes=%d failing=%d violations=%d exhaustive=%s wall=%.1fs" % (
        prop, tier, merged.evaluations, merged.nontrivial, len(merged.outcomes), merged.nfail, len(violations), not merged.capped, wall))
    return 1 if violations else 0


HANG_GRACE = float(os.environ.get("VERIF_HANG_GRACE", 600.0))      # seconds past the tier deadline after which a shard that has not returned counts as stuck
HANG_LIMIT = float(os.environ.get("VERIF_HANG_LIMIT", 900.0))      # time limit of a shard re-run alone (its own cooperative deadline is 300 s)


def _kill_pool(pool):
    for p in list((getattr(pool, "_processes", None) or {}).values()):
        try:
            p.kill()
        except Exception:
            pass


def _fate(module, shard, ctxmp, args, timeout=HANG_LIMIT):
    """runs one shard in a child process of its own: 'ok', 'died' (killed by a signal / abnormal exit) or 'hung' (no result within the limit)"""
    import concurrent.futures
    with concurrent.futures.ProcessPoolExecutor(max_workers=1, mp_context=ctxmp, initializer=_init_worker, initargs=(module.__name__, args)) as one:
        try:
            one.submit(_work, shard).result(timeout=timeout)
            return "ok"
        except concurrent.futures.TimeoutError:
            _kill_pool(one)
            return "hung"
        except Exception:
            return "died"


def _dies(module, shard, ctxmp, args):
    return _fate(module, shard, ctxmp, args) != "ok"


def _shard_run(module, shard, ctxmp, args, timeout=HANG_LIMIT):
    """the packed result of one shard run alone in a fresh process (None if it dies or hangs)"""
    import concurrent.futures
    with concurrent.futures.ProcessPoolExecutor(max_workers=1, mp_context=ctxmp, initializer=_init_worker, initargs=(module.__name__, args)) as one:
        try:
            return one.submit(_work, shard).result(timeout=timeout)
        except concurrent.futures.TimeoutError:
            _kill_pool(one)
            return None
        except Exception:
            return None


def _worker_hung(module, main, stuck, ctxmp, t0):
    """Some shards did not return long after the deadline that every shard polls between evaluations: a call into the code under test
    does not come back.  Each is re-run alone with a fresh, short cooperative deadline and a longer hard limit; one that hangs again is a
    violation (every enumerated call is a valid call and must terminate); if none does, the run is reported as nondeterministic."""
    prop = module.PROPERTY
    culprit = None
    for s in stuck[:4]:
        if _fate(module, s, ctxmp, (prop, main.tier, main.seed, time.time() + 300)) == "hung":
            culprit = s
            break
    if culprit is None:
        print("HARNESS-NONDETERMINISM property=%s %d shard(s) did not return in time, but none hangs when re-run alone (first: %s)" % (prop, len(stuck), json.dumps(stuck[0])[:300]))
        return 2
    os.makedirs(os.path.join(OUTDIR, "replays"), exist_ok=True)
    path = os.path.join(OUTDIR, "replays", "%s-hang.json" % prop)
    case = {"sub": "__hang__", "shard": culprit}
    with open(path, "w") as fh:
        json.dump({"property": prop, "tier": main.tier, "seed": main.seed, "signature": "hang", "message": "a call made while enumerating this shard does not return", "case": case}, fh, indent=1)
    write_evidence(prop, main.tier, main.seed, module.LEVEL, {"evaluations": 1, "distinct_nontrivial": 1, "rule": module.RULE, "samples": [case], "exhaustive": False,
                   "caps_hit": ["aborted: a call into the code under test does not return"], "tree_hash": build.tree_hash()}, module.ASSUMPTIONS, time.time() - t0, 1)
    print("VIOLATION property=%s replay=%s  # hang: a valid call sequence of shard %s does not terminate (reproduced alone, limit %d s)" % (prop, path, json.dumps(culprit)[:300], int(HANG_LIMIT)))
    return 1


def _worker_died(module, main, shards, ctxmp, t0):
    """A worker process was killed by a fatal signal inside the code under test.  The shard is identified by re-running the
    shards one by one in child processes; a shard that kills its process every time is a violation (the call alphabets only
    contain valid calls, and a crash is not the specified result); one that does not die again is reported as nondeterminism."""
    prop = module.PROPERTY
    args = (prop, main.tier, main.seed, time.time() + 600)
    culprit = None
    for s in shards:
        if _dies(module, s, ctxmp, args):
            culprit = s
            break
    if culprit is None or not _dies(module, culprit, ctxmp, args):
        print("HARNESS-NONDETERMINISM property=%s a worker process died once, but no shard kills its process when re-run alone (shard=%s)" % (prop, json.dumps(culprit)[:300]))
        return 2
    os.makedirs(os.path.join(OUTDIR, "replays"), exist_ok=True)
    path = os.path.join(OUTDIR, "replays", "%s-crash.json" % prop)
    case = {"sub": "__crash__", "shard": culprit}
    with open(path, "w") as fh:
        json.dump({"property": prop, "tier": main.tier, "seed": main.seed, "signature": "crash", "message": "fatal signal while enumerating this shard", "case": case}, fh, indent=1)
    write_evidence(prop, main.tier, main.seed, module.LEVEL, {"evaluations": 1, "distinct_nontrivial": 1, "rule": module.RULE, "samples": [case], "exhaustive": False,
                   "caps_hit": ["aborted: the code under test kills the process"], "tree_hash": build.tree_hash()}, module.ASSUMPTIONS, time.time() - t0, 1)
    print("VIOLATION property=%s replay=%s  # crash: a valid call sequence of shard %s terminates the process with a fatal signal (reproduced twice in isolation)" % (prop, path, json.dumps(culprit)[:300]))
    return 1


def _build_failure(module, ctx, e, t0):
    prop = module.PROPERTY
    os.makedirs(os.path.join(OUTDIR, "replays"), exist_ok=True)
    if e.kind == "harness":
        print("HARNESS-OUT-OF-DATE property=%s (the library builds, the harness does not)\n%s" % (prop, e.msg[-3000:]))
        return 2
    # the library itself does not build in some configuration
    cfg_violation = getattr(module, "CONFIG_BUILD_FAILURE_IS_VIOLATION", False)
    path = os.path.join(OUTDIR, "replays", "%s-build.json" % prop)
    with open(path, "w") as fh:
        json.dump({"property": prop, "build_failure": e.msg[-8000:]}, fh, indent=1)
    if cfg_violation and e.config not in (None, "asm") and _default_builds():
        write_evidence(prop, ctx.tier, ctx.seed, module.LEVEL, {"evaluations": 1, "distinct_nontrivial": 2, "rule": module.RULE,
                       "samples": [{"build_failure": e.msg[-500:]}], "exhaustive": False}, module.ASSUMPTIONS, time.time() - t0, 1)
        print("VIOLATION property=%s replay=%s  # a supported configuration no longer builds" % (prop, path))
        return 1
    print("BROKEN-TREE property=%s: the library does not build\n%s" % (prop, e.msg[-3000:]))
    return 2


def _default_builds():
    try:
        build.build("asm")
        return True
    except build.BuildError:
        return False


def replay_file(module, path):
    data = json.load(open(path))
    ctx = Ctx(module.PROPERTY, data.get("tier", "quick"), data.get("seed", 0), time.time() + 3600)
    if data["case"].get("sub") == "__shard__":
        r = _shard_run(module, data["case"]["shard"], multiprocessing.get_context("fork"), (module.PROPERTY, ctx.tier, ctx.seed, time.time() + 600))
        msgs = [g["msg"] for g in r["failures"]][:3] if r and r.get("failures") else []
    elif data["case"].get("sub") == "__hang__":
        fate = _fate(module, data["case"]["shard"], multiprocessing.get_context("fork"), (module.PROPERTY, ctx.tier, ctx.seed, time.time() + 300))
        msgs = ["a call made while enumerating this shard does not return"] if fate == "hung" else (["enumerating this shard kills the process"] if fate == "died" else [])
    elif data["case"].get("sub") == "__crash__":
        died = _dies(module, data["case"]["shard"], multiprocessing.get_context("fork"), (module.PROPERTY, ctx.tier, ctx.seed, time.time() + 600))
        msgs = ["enumerating this shard kills the process with a fatal signal"] if died else []
    else:
        msgs = module.replay(ctx, data["case"])
    if msgs:
        print("VIOLATION property=%s replay=%s  # %s" % (module.PROPERTY, path, "; ".join(msgs)[:500]))
        return 1
    print("replay holds: property=%s %s" % (module.PROPERTY, path))
    return 0
