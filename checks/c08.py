"""C08 - prepared and multi-pairing forms agree with the product of single pairings (engine B over list shapes)."""
import ctypes
import itertools

from vlib import alpha, build, ffi, ref

PROPERTY = "C08"
LEVEL = "model_checking"
RULE = ("exhaustive over list shapes: ALL (affine-pair list, prepared-pair list) with total length 0..n (n=3 quick, 4 thorough) whose entries are drawn from "
        "{P1,P2,O} x {Q1,Q2,O}; each list is evaluated TWICE in a row on the same pair arrays (private cursor fields pre-filled with 0xFF garbage before the "
        "first evaluation, left as they are before the second), through pairing_sum (C) and pairing_product (C++); expected value = product of the single "
        "pairings = e(G1,G2)^(sum of exponent products) from the Python model; plus prepared_pairing vs pairing on all alphabet pairs; plus LONG lists: the "
        "pair count takes every boundary value 5..9, 15..17, 31..33, 63..65, 100 (pure affine, pure prepared, half/half; with identity pairs in the last, first, an early and the middle position and as a run). "
        "plus EVERY pair count 5..130 as a pure affine and a pure prepared list (thorough: every split with both parts <= 24). state = (list, evaluation number); distinct by construction; non-trivial = at least one pair without an identity")
ASSUMPTIONS = ["single pairings are decided by C01; e(G1,G2) and its powers come from vlib/ref.py", "portable back ends run every 4th list (the Miller-loop code is shared)"]
CONFIGS = ["asm", "c64", "c32"]


def scal(seed):
    f = alpha.fillers(seed, "c08", 4, ref.r)
    return {"P1": f[0], "P2": f[1], "Q1": f[2], "Q2": f[3], "O": 0}


SYMS = [(p, q) for p in ("P1", "P2", "O") for q in ("Q1", "Q2", "O")]


class Env:
    def __init__(self, cfg, seed):
        self.L = L = ffi.lib(cfg)
        s = scal(seed)
        self.s = s
        self.g1 = {k: L.buf(L.size["g1affine"], L.aff(ref.pt_mul(ref.G1_GEN, s[k], 1), 1)) for k in ("P1", "P2", "O")}
        self.g2 = {k: L.buf(L.size["g2affine"], L.aff(ref.pt_mul(ref.G2_GEN, s[k], 2), 2)) for k in ("Q1", "Q2", "O")}
        self.prep = {}
        for k in ("Q1", "Q2", "O"):
            b = L.buf(L.size["g2prepared"], b"\xCD" * L.size["g2prepared"])
            L.call("vk_g2prepared_prepare", b, self.g2[k])
            self.prep[k] = b
        self.expcache = {}

    def expected(self, lst_a, lst_p):
        e = sum(self.s[p] * self.s[q] for p, q in list(lst_a) + list(lst_p)) % ref.r
        if e not in self.expcache:
            self.expcache[e] = self.L.f12(ref.f12_pow(ref.gen_pairing(), e))
        return self.expcache[e]


_ENV = {}


def env(cfg, seed):
    if (cfg, seed) not in _ENV:
        _ENV[(cfg, seed)] = Env(cfg, seed)
    return _ENV[(cfg, seed)]


def eval_case(case):
    E = env(case["cfg"], case["seed"])
    L = E.L
    msgs = []
    if case["sub"] == "single":
        p, q = case["p"], case["q"]
        exp = E.expected([(p, q)], [])
        if L.out("embedded_pairing_bls12_381_prepared_pairing", 576, E.g1[p], E.prep[q]) != exp:
            msgs.append("prepared_pairing != product model")
        # (the plain single pairing against the model is C01's check; it is not repeated here, so that a defect confined to the
        # single-pairing entry point is reported under the property it violates)
        z = L.call("embedded_pairing_bls12_381_g2prepared_is_zero", E.prep[q]) & 1
        if z != (1 if q == "O" else 0):
            msgs.append("g2prepared_is_zero wrong")
        return msgs
    la = [tuple(x) for x in case["affine"]]
    lp = [tuple(x) for x in case["prepared"]]
    exp = E.expected(la, lp)
    sa, sp = L.size["affinepair"], L.size["preparedpair"]
    for route in ("vk_pairing_product", "embedded_pairing_bls12_381_pairing_sum"):
        abuf = L.buf(max(1, sa * len(la)))
        pbuf = L.buf(max(1, sp * len(lp)))
        for i, (p, q) in enumerate(la):
            L.f("vk_affinepair_init")(ctypes.byref(abuf, sa * i), E.g1[p], E.g2[q], 0xFF)
        for i, (p, q) in enumerate(lp):
            L.f("vk_preparedpair_init")(ctypes.byref(pbuf, sp * i), E.g1[p], E.prep[q], 0xFF)
        for rnd in (1, 2):
            out = L.out(route, 576, abuf if la else None, ffi.sz(len(la)), pbuf if lp else None, ffi.sz(len(lp)))
            if out != exp:
                msgs.append("%s evaluation #%d of affine=%s prepared=%s != product of single pairings" % (route.split("_")[-1], rnd, la, lp))
    return msgs


LONG_LENGTHS = [5, 6, 7, 8, 9, 15, 16, 17, 31, 32, 33, 63, 64, 65, 100]


def long_lists(tier):
    """the list LENGTH is an operand too: boundary values of the pair count (every 2^k and its neighbours up to 65, and 100), as pure
    affine, pure prepared and half/half lists, each with and without an identity pair in the last position, over a repeating symbol pattern"""
    pat = [("P1", "Q1"), ("P2", "Q1"), ("P1", "Q2"), ("P2", "Q2")]
    out = []
    for n in LONG_LENGTHS:
        base = [pat[i % 4] for i in range(n)]
        # identity pairs at the end, at the start, early (index 3) and in the middle, singly and as a run of three: where the dead pairs sit
        # relative to the live ones is part of the list's shape
        variants = [None] + [(pos, idn) for pos in ("last", "first", 3, "mid") for idn in (("P1", "O"), ("O", "Q2"))] + [("run", ("O", "Q1"))]
        for v in variants:
            lst = list(base)
            if v is not None:
                pos, idn = v
                if pos == "run":
                    for k in (1, 2, 3):
                        lst[min(k, n - 1)] = idn
                else:
                    lst[{"last": n - 1, "first": 0, "mid": n // 2}.get(pos, pos) if not isinstance(pos, int) else min(pos, n - 1)] = idn
            out.append((tuple(lst), ()))
            out.append(((), tuple(lst)))
            out.append((tuple(lst[: n // 2]), tuple(lst[n // 2:])))
        if tier == "thorough":
            out.append((tuple(base), tuple(base)))
    return out


ALL_LENGTHS = 130


def every_length(tier):
    """EVERY pair count 5..130 (not only the neighbours of powers of two), as a pure affine list and as a pure prepared list; thorough: also every
    split (na, np) with na, np <= 24.  Internal batch sizes, table sizes and counters of any width up to 7 bits are crossed whatever their value."""
    pat = [("P1", "Q1"), ("P2", "Q1"), ("P1", "Q2"), ("P2", "Q2")]
    out = []
    for n in range(5, ALL_LENGTHS + 1):
        base = tuple(pat[i % 4] for i in range(n))
        out.append((base, ()))
        out.append(((), base))
    if tier == "thorough":
        for na in range(1, 25):
            for npp in range(1, 25):
                out.append((tuple(pat[i % 4] for i in range(na)), tuple(pat[(i + 1) % 4] for i in range(npp))))
    return out


def lists(n):
    out = []
    for total in range(n + 1):
        for na in range(total + 1):
            for a in itertools.product(SYMS, repeat=na):
                for p in itertools.product(SYMS, repeat=total - na):
                    out.append((a, p))
    return out


def shards(ctx):
    for c in CONFIGS:
        build.build(c)
    out = []
    for cfg in CONFIGS:
        out.append({"sub": "single", "cfg": cfg})
        for k in range(16 if cfg == "asm" else 4):
            out.append({"sub": "lists", "cfg": cfg, "part": k, "parts": 16 if cfg == "asm" else 4})
        for k in range(4):
            out.append({"sub": "long", "cfg": cfg, "part": k, "parts": 4})
    for k in range(16):
        out.append({"sub": "every-length", "cfg": "asm", "part": k, "parts": 16})
    return out


def run_shard(ctx, shard):
    cfg = shard["cfg"]
    if shard["sub"] == "single":
        for p, q in SYMS:
            case = {"sub": "single", "cfg": cfg, "seed": ctx.seed, "p": p, "q": q}
            msgs = eval_case(case)
            ctx.ok(p != "O" and q != "O", "single")
            if msgs:
                ctx.fail(case, "; ".join(msgs), sig="single")
        return
    n = 3 if ctx.tier == "quick" else 4
    if shard["sub"] == "long":
        all_lists = long_lists(ctx.tier)
        if cfg != "asm":
            all_lists = all_lists[::3]
    elif shard["sub"] == "every-length":
        all_lists = every_length(ctx.tier)
        # longest first within a shard's stride keeps the shards balanced
    else:
        all_lists = lists(n)
        if cfg != "asm":
            all_lists = all_lists[::4]
    if ctx.tier == "thorough" and cfg == "asm":
        pass
    for a, p in all_lists[shard["part"]::shard["parts"]]:
        case = {"sub": "list", "cfg": cfg, "seed": ctx.seed, "affine": [list(x) for x in a], "prepared": [list(x) for x in p]}
        msgs = eval_case(case)
        nontriv = any(x != "O" and y != "O" for x, y in list(a) + list(p))
        kind = "len%s:%s" % (len(a) + len(p) if shard["sub"] not in ("long", "every-length") else ">4", "mixed" if a and p else ("affine" if a else ("prepared" if p else "empty")))
        ctx.ok(nontriv, kind, n=4)
        ctx.sample(case, limit=1)
        if msgs:
            ctx.fail(case, "; ".join(msgs[:2]), sig="list:" + ("second-evaluation" if all("#2" in m for m in msgs) else "product"))
        if ctx.out_of_time():
            return


def replay(ctx, case):
    return eval_case(case)


def finish(merged, cov):
    for need in ("len0:empty", "len1:affine", "len1:prepared", "len2:mixed", "len3:mixed", "single", "len>4:affine", "len>4:prepared", "len>4:mixed"):
        if not merged.outcomes.get(need):
            return "outcome class %s never exercised" % need
    cov["states"] = merged.evaluations
    cov["transitions"] = merged.evaluations
    cov["traces_validated_against_impl"] = merged.evaluations
    return None
