"""C13 - WKD-IBE signatures verify exactly for the signed message and attribute list (engine B)."""
import itertools

from vlib import alpha, build, ffi, ref, wk
from checks import c11

PROPERTY = "C13"
LEVEL = "model_checking"
RULE = ("on the state graph of C11 with signature support: for EVERY reachable key state (replayed from its witness history), EVERY extension list E of the key's "
        "fixed pattern using only free slots (each free slot absent / v1 / v2) and EVERY message of {0,1,r-1,r,r+1,2^256-1,filler}: sign and sign_precomputed "
        "(and attrs=NULL for the key's own pattern) must verify under verify and verify_precomputed; negative space, each alone: a message different mod r, m+r "
        "(must verify alike), EVERY other list of the alphabet (per slot absent / v1 / v2 / v1 with omitFromKeys set - the flag is not part of the statement, the id is), "
        "the signed list with its flags set differently (must verify), lists that set a hidden or differently-fixed slot, a0+G1, a1+G2, (-a0,-a1), (2a0,2a1), and a signature made by a key of "
        "another pattern; LONG lists: l = 65 and list lengths 5, 9, 17, 33, 65 (every 2^k and 2^k+1 up to 65 in the thorough tier): sign / verify both ways, one "
        "altered or dropped entry must fail. state = (key state, E, message); non-trivial = message > 1")
ASSUMPTIONS = ["messages are scalars in Z_r: m and m+r are the same message", "a list entry with value 0 mod r is the same as an absent entry"]

MESSAGES = [0, 1, ref.r - 1, ref.r, ref.r + 1, 2**256 - 1]


def messages(seed, tier):
    ms = MESSAGES + [alpha.filler(seed, "c13m", 0, 256)]
    return ms if tier == "thorough" else [0, 1, ref.r - 1, ref.r + 1, 2**256 - 1, ms[-1]]


def extension_lists(pattern, names):
    per = []
    for i, s in enumerate(pattern):
        if s == wk.FREE:
            per.append([None] + list(names))
        elif s == wk.HID:
            per.append([None])
        else:
            per.append([("fixed", s)])
    out = []
    for combo in itertools.product(*per):
        out.append([[i, c] for i, c in enumerate(combo) if c is not None])
    return out


def resolve(E, vals):
    """[(idx, id, marked)]: a marked entry carries omitFromKeys, which signing and verification must ignore"""
    out = []
    for i, c in E:
        if isinstance(c, (tuple, list)):
            out.append((i, int(c[1]), False))
        else:
            out.append((i, wk.entry_value(c, vals), wk.is_hidden(c)))
    return out


def remark(pairs, how):
    """the same attribute list with the omitFromKeys flags set differently (all / none / alternating)"""
    return [(p[0], p[1], {"all": True, "none": False, "alt": bool(k % 2 == 0)}[how]) for k, p in enumerate(pairs)]


def all_lists(l, names):
    out = []
    for combo in itertools.product([None] + list(names) + [wk.MARK + names[0]], repeat=l):
        out.append([[i, c] for i, c in enumerate(combo) if c is not None])
    return out


def sign(W, key, pairs, m, mode, rng=None):
    L, N = W.L, W.N
    sig = L.buf(N.sz["wk_signature"])
    mb = L.bi(m, 256)
    rng = rng or W.rng
    al = N.plain_list(pairs)
    if mode == "direct":
        L.call("embedded_pairing_wkdibe_sign", sig, W.params.buf, key.buf, al, mb, rng.cb)
    else:
        pre = L.buf(N.sz["wk_precomputed"])
        L.call("embedded_pairing_wkdibe_precompute", pre, W.params.buf, al)
        L.call("embedded_pairing_wkdibe_sign_precomputed", sig, W.params.buf, key.buf, None if mode == "null" else al, pre, mb, rng.cb)
    return sig


def verify(W, pairs, sig, m, mode="direct"):
    L, N = W.L, W.N
    al = N.plain_list(pairs)
    mb = L.bi(m, 256)
    if mode == "direct":
        return L.call("embedded_pairing_wkdibe_verify", W.params.buf, al, sig, mb) & 1
    pre = L.buf(N.sz["wk_precomputed"])
    L.call("embedded_pairing_wkdibe_precompute", pre, W.params.buf, al)
    return L.call("embedded_pairing_wkdibe_verify_precomputed", W.params.buf, pre, sig, mb) & 1


def canon(pairs):
    return {p[0]: p[1] % ref.r for p in pairs if p[1] % ref.r}


def eval_case(case):
    W = c11.world(case["cfg"], case["l"], True, case["seed"])
    L, N = W.L, W.N
    key, state = W.replay(case["history"])
    pat = state[1]
    E = case["E"]
    pairs = resolve(E, W.vals)
    m = int(case["m"], 16)
    msgs = []
    modes = ["direct", "pre"]
    if canon(pairs) == canon(wk.pattern_list(pat)):
        modes.append("null")
    sigs = {mode: sign(W, key, pairs, m, mode) for mode in modes}
    for mode, sig in sigs.items():
        for vm in ("direct", "pre"):
            if not verify(W, pairs, sig, m, vm):
                msgs.append("signature (%s) on m=%x for %s by key %s does not verify (%s)" % (mode, m, E, wk.pat_str(pat), vm))
    sig = sigs["direct"]
    if case.get("negatives") and pairs:
        # the omitFromKeys flag of a list entry is not part of the signed statement: any flagging verifies, and signing under a
        # flagged list gives a signature for the same list
        for how in ("all", "alt"):
            for vm in ("direct", "pre"):
                if not verify(W, remark(pairs, how), sig, m, vm):
                    msgs.append("signature for %s does not verify (%s) when the verifier's list has omitFromKeys set (%s)" % (E, vm, how))
        # ids are scalars mod r: the same list written with unreduced ids (v + r, and v + 2r where it fits in 256 bits) is the same list
        for mult in (1, 2):
            alias = [(p[0], p[1] + mult * ref.r, p[2]) for p in pairs]
            if all(a[1] < 2**256 for a in alias):
                for vm in ("direct", "pre"):
                    if not verify(W, alias, sig, m, vm):
                        msgs.append("signature for %s does not verify (%s) under the same list with ids given as id + %d*r" % (E, vm, mult))
                s4 = sign(W, key, alias, m, "direct")
                if not verify(W, pairs, s4, m):
                    msgs.append("signature made for the list with ids id + %d*r does not verify for %s" % (mult, E))
        s3 = sign(W, key, remark(pairs, "all"), m, "direct")
        if not verify(W, pairs, s3, m):
            msgs.append("signature made with a list whose entries have omitFromKeys set does not verify for %s" % E)
    if case.get("negatives"):
        for m2, same in ((m + 1, False), ((m + ref.r) % 2**256 if m + ref.r < 2**256 else (m - ref.r) % 2**256, True), (m ^ (1 << 200), False)):
            same = (m2 % ref.r) == (m % ref.r)
            if bool(verify(W, pairs, sig, m2)) != same:
                msgs.append("verification under message %x (signed %x) returns %s" % (m2, m, not same))
        for other in case["others"]:
            p2 = resolve(other, W.vals)
            if canon(p2) != canon(pairs) and verify(W, p2, sig, m):
                msgs.append("signature for %s also verifies under %s" % (E, other))
            if canon(p2) != canon(pairs) and verify(W, p2, sig, m, "pre"):
                msgs.append("signature for %s also verifies (precomputed) under %s" % (E, other))
        for comp, g in (("a0", 1), ("a1", 2)):
            s2 = L.buf(N.sz["wk_signature"], sig.raw)
            o = N.off["wk_signature." + comp]
            size = N.sz["g%d" % g]
            new = L.out("embedded_pairing_bls12_381_g%d_add" % g, size, sig.raw[o:o + size], L.const("g%d_one" % g, size))
            ffi.ctypes.memmove(ffi.ctypes.byref(s2, o), new, size)
            if verify(W, pairs, s2, m):
                msgs.append("signature with %s altered still verifies" % comp)
        # both components altered TOGETHER: negated (the verification ratio becomes its inverse, which shares half of its coefficients
        # with the right value) and doubled (the ratio is squared)
        for how, fn in (("negated", "negate"), ("doubled", "double")):
            s2 = L.buf(N.sz["wk_signature"], sig.raw)
            for comp, g in (("a0", 1), ("a1", 2)):
                o = N.off["wk_signature." + comp]
                size = N.sz["g%d" % g]
                new = L.out("embedded_pairing_bls12_381_g%d_%s" % (g, fn), size, sig.raw[o:o + size])
                ffi.ctypes.memmove(ffi.ctypes.byref(s2, o), new, size)
            for vm in ("direct", "pre"):
                if verify(W, pairs, s2, m, vm) if vm == "pre" else verify(W, pairs, s2, m):
                    msgs.append("signature with a0 and a1 both %s still verifies (%s)" % (how, vm))
    for bad in case.get("incompatible", []):
        # lists the key cannot sign for: a hidden slot set, or a fixed slot with another value
        p2 = resolve(bad, W.vals)
        s2 = sign(W, key, p2, m, "direct")
        if verify(W, p2, s2, m):
            msgs.append("key %s produced a verifying signature for the incompatible list %s" % (wk.pat_str(pat), bad))
    return msgs


def eval_long(case):
    """long attribute lists (l = 65): keygen for the n-entry list, sign its own pattern, verify both ways; one altered entry must fail"""
    W = c11.world(case["cfg"], wk.LONG_L, True, case["seed"])
    Ls = wk.long_list(case["n"])
    key, state = W.replay([["keygen", Ls]])
    pairs = [(i, W.vals[c], False) for i, c in Ls["e"]]
    m = alpha.filler(case["seed"], "c13long", case["n"], 255)
    msgs = []
    for mode in ("direct", "pre"):
        sig = sign(W, key, pairs, m, mode)
        for vm in ("direct", "pre"):
            if not verify(W, pairs, sig, m, vm):
                msgs.append("list of %d entries: signature (%s) does not verify (%s)" % (case["n"], mode, vm))
            for pos in (0, len(pairs) // 2, len(pairs) - 1):
                bad = list(pairs)
                bad[pos] = (bad[pos][0], (bad[pos][1] + 1) % ref.r, False)
                if verify(W, bad, sig, m, vm):
                    msgs.append("list of %d entries: signature also verifies (%s) with entry %d altered" % (case["n"], vm, pos))
            if verify(W, pairs[:-1], sig, m, vm):
                msgs.append("list of %d entries: signature also verifies (%s) with the last entry dropped" % (case["n"], vm))
    # a key with fewer fixed slots signs the long list by filling free slots
    key2, _ = W.replay([["keygen", {"e": Ls["e"][:2], "omit": False}]])
    sig = sign(W, key2, pairs, m, "direct")
    if not verify(W, pairs, sig, m):
        msgs.append("list of %d entries signed by a key that fills %d free slots: does not verify" % (case["n"], case["n"] - 2))
    return msgs


def shards(ctx):
    for c in ("asm", "c64", "c32"):
        build.build(c)
    U = c11.universe(ctx, quick_l=3)
    vals = wk.values(ctx.seed)
    reach = wk.reachable(U["l"], U["names"], vals, witnesses=1)
    out = []
    for st, hists in sorted(reach.items(), key=lambda kv: str(kv[0])):
        out.append({"state": [st[0], list(st[1])], "history": hists[0]})
    ctx.extra["abstract_states"] = len(reach)
    for k, (st, hists) in enumerate(sorted(reach.items(), key=lambda kv: str(kv[0]))):
        if k % 12 in (1, 7):
            out.append({"state": [st[0], list(st[1])], "history": hists[0], "cfg": "c64" if k % 12 == 1 else "c32"})
    out.append({"sub": "long", "n": 9, "cfg": "c64"})
    out.append({"sub": "long", "n": 6, "cfg": "c32"})
    for n in (wk.LONG_N if ctx.tier == "thorough" else [5, 9, 17, 33, 65]):
        out.append({"sub": "long", "n": n})
    return out


def run_shard(ctx, shard):
    if shard.get("sub") == "long":
        case = {"sub": "long", "cfg": shard.get("cfg", "asm"), "seed": ctx.seed, "n": shard["n"]}
        msgs = eval_long(case)
        ctx.ok(True, "long-list")
        if msgs:
            ctx.fail(case, "; ".join(msgs[:3]), sig="long-list")
        return
    U = c11.universe(ctx, quick_l=3)
    vals = wk.values(ctx.seed)
    state = (shard["state"][0], tuple(shard["state"][1]))
    pat = state[1]
    base = {"cfg": shard.get("cfg", "asm"), "l": U["l"], "seed": ctx.seed, "history": shard["history"]}
    others = all_lists(U["l"], U["names"])
    exts = extension_lists(pat, U["names"])
    ms = messages(ctx.seed, ctx.tier)
    # incompatible lists: every list of the alphabet that is not an extension of the pattern by free slots
    okset = [canon(resolve(E, vals)) for E in exts]
    incompatible = [o for o in others if canon(resolve(o, vals)) not in okset]
    for ei, E in enumerate(exts):
        for mi, m in enumerate(ms):
            neg = (mi in (1, 2, len(ms) - 1))
            case = dict(base, E=[[i, list(c) if isinstance(c, tuple) else c] for i, c in E], m="%x" % m)
            if neg:
                case["negatives"] = True
                case["others"] = others
            if ei == 0 and mi == len(ms) - 1:
                case["incompatible"] = incompatible
            msgs = eval_case(case)
            ctx.ok(m > 1, "sign:%s" % ("with-negatives" if neg else "positive"))
            if "incompatible" in case:
                ctx.ok(True, "incompatible-lists", n=len(incompatible))
            ctx.sample({"state": state[0] + wk.pat_str(pat), "E": case["E"], "m": case["m"]}, limit=1)
            if msgs:
                ctx.fail(case, "; ".join(msgs[:3]), sig="sign:" + ("verify-fails" if "does not verify" in msgs[0] else "forgery-or-malleable"))
            if ctx.out_of_time():
                return


def replay(ctx, case):
    if case.get("sub") == "long":
        return eval_long(case)
    return eval_case(case)


def finish(merged, cov):
    for need in ("sign:positive", "sign:with-negatives", "incompatible-lists", "long-list"):
        if not merged.outcomes.get(need):
            return "class %s never exercised" % need
    cov["states"] = merged.extra.get("abstract_states", 1)
    cov["transitions"] = merged.evaluations
    cov["traces_validated_against_impl"] = merged.evaluations
    return None
