"""C07 - target-group exponentiation and group operations are exact (engines A + E)."""
import itertools

from vlib import alpha, build, ffi, ref

PROPERTY = "C07"
LEVEL = "model_checking"
RULE = ("bounded-exhaustive: bases e(G1,G2)^a for a in {0,1,2,r-1,fillers} x every exponent of S(256) x {exponentiate_gt, exponentiate_gt_div, "
        "exponentiate_gt_nodiv, decompose + exponentiate_gt(PowersOfX), C gt_multiply} on 3 back ends vs Python pow in the quotient ring; "
        "gt_add/gt_double/gt_negate on all base pairs; random exponent routines under an enumerated random source: every 8-byte digit request "
        "answered from {0,1,|x|-1,|x|,2^64-1,filler}, ALL answer sequences with <= 2 deviations from the default within the first 12 requests, plus the "
        "sequences giving y = r-1, r, r+1, x^4-1. distinct by construction; non-trivial = base != 1 and exponent > 1")
ASSUMPTIONS = ["vlib/ref.py quotient-ring pow is the ground truth", "uniformity is decided in its functional form: exact rejection sampling "
               "(accept iff every digit < |x| and y < r), not statistically"]
CONFIGS = ["asm", "c64", "c32"]
X = ref.X_ABS


def base_exps(seed, tier):
    f = alpha.fillers(seed, "c07b", 2, ref.r)
    return [0, 1, 2, ref.r - 1, f[0]] + ([f[1]] if tier == "thorough" else [])


_B = {}


def base(a):
    if a not in _B:
        _B[a] = ref.f12_pow(ref.gen_pairing(), a % ref.r)
    return _B[a]


ROUTES = {"exp_gt": "vk_fq12_exp_gt", "exp_gt_div": "vk_fq12_exp_gt_div", "exp_gt_nodiv": "vk_fq12_exp_gt_nodiv256",
          "c_gt_multiply": "embedded_pairing_bls12_381_gt_multiply"}


def eval_case(case):
    sub = case["sub"]
    msgs = []
    if sub == "platform":
        return eval_platform(case)
    if sub == "exp":
        a, k = int(case["a"], 16), int(case["k"], 16)
        exp = ref.f12_pow(base(a), k % ref.r)
        for cfg in case.get("cfgs", CONFIGS):
            L = ffi.lib(cfg)
            Bn = L.f12(base(a))
            expb = L.f12(exp)
            kb = L.bi(k, 256)
            for name, fn in ROUTES.items():
                if L.out(fn, 576, Bn, kb) != expb:
                    msgs.append("%s:%s" % (cfg, name))
            px = L.out("vk_powersofx_decompose", L.size["powersofx"], kb)
            if L.out("vk_fq12_exp_gt_powers", 576, Bn, px) != expb:
                msgs.append("%s:decompose+exp_gt_powers" % cfg)
            # output aliasing the base
            bf = L.buf(576, Bn)
            L.call("vk_fq12_exp_gt", bf, bf, kb)
            if bf.raw != expb:
                msgs.append("%s:exp_gt(out=base)" % cfg)
        return msgs
    if sub == "group":
        a, b = int(case["a"], 16), int(case["b"], 16)
        for cfg in CONFIGS:
            L = ffi.lib(cfg)
            An, Bn = L.f12(base(a)), L.f12(base(b))
            if L.out("embedded_pairing_bls12_381_gt_add", 576, An, Bn) != L.f12(base((a + b) % ref.r)):
                msgs.append("%s:gt_add" % cfg)
            if L.out("embedded_pairing_bls12_381_gt_double", 576, An) != L.f12(base(2 * a % ref.r)):
                msgs.append("%s:gt_double" % cfg)
            if L.out("vk_fq12_square_cyclotomic", 576, An) != L.f12(ref.f12_mul(base(a), base(a))):
                msgs.append("%s:square_cyclotomic" % cfg)
            if L.out("embedded_pairing_bls12_381_gt_negate", 576, An) != L.f12(base((-a) % ref.r)):
                msgs.append("%s:gt_negate" % cfg)
            eq = L.call("embedded_pairing_bls12_381_gt_equal", An, Bn) & 1
            if eq != (1 if a % ref.r == b % ref.r else 0):
                msgs.append("%s:gt_equal" % cfg)
        return msgs
    if sub == "random":
        return eval_random(case)
    raise ValueError(sub)


def model_sampling(answers, default, reverse=False):
    """exact rejection sampling applied to the answer stream: returns (digits, y, requests consumed).  reverse: the four digits are drawn
    most significant first (the property does not say in which order the digits of y are drawn)"""
    it = iter(answers)
    used = 0

    def nxt():
        nonlocal used
        used += 1
        return next(it, default)
    while True:
        c = []
        for _ in range(4):
            while True:
                d = nxt()
                if d < X:
                    c.append(d)
                    break
        if reverse:
            c = c[::-1]
        y = sum(ci * X**i for i, ci in enumerate(c))
        if y < ref.r:
            return c, y, used
        if used > 200:
            raise RuntimeError("model does not terminate")


OTHER_PROTOCOL = set()


def eval_random(case):
    OTHER_PROTOCOL.clear()
    answers = [int(t, 16) for t in case["answers"]]
    default = int(case["default"], 16)
    a = int(case["a"], 16)
    cs, y, used = model_sampling(answers, default)
    y_alt = model_sampling(answers, default, reverse=True)[1]
    msgs = []
    exp = None
    for cfg in case.get("cfgs", ["asm"]):
        L = ffi.lib(cfg)
        for routine in ("random_gt", "c_gt_multiply_random", "powersofx_random"):
            stream = iter(answers)
            reqs = []

            def answer(n, stream=stream, reqs=reqs):
                reqs.append(n)
                if len(reqs) > 400:
                    return ffi.varying_filler(len(reqs), n)          # horizon: reported below (never a constant: see ffi.varying_filler)
                if n == 8:
                    return next(stream, default).to_bytes(8, "little")
                # requests of another size than the digit protocol's 8 bytes are served from the same stream, 8 bytes at a time, and from a
                # varying filler once the scripted answers are used up
                chunks = [next(stream, None) for _ in range((n + 7) // 8)]
                if any(c is None for c in chunks):
                    return ffi.varying_filler(len(reqs), n)
                return b"".join(c.to_bytes(8, "little") for c in chunks)[:n]
            cb = L.rng(answer)
            yb = L.buf(32, b"\xCD" * 32)
            Bn = L.f12(base(a))
            if routine == "random_gt":
                out = L.buf(576)
                L.call("vk_fq12_random_gt", out, yb, Bn, cb)
            elif routine == "c_gt_multiply_random":
                out = L.buf(576)
                L.call("embedded_pairing_bls12_381_gt_multiply_random", out, yb, Bn, cb)
            else:
                px = L.buf(L.size["powersofx"])
                L.call("vk_powersofx_random", px, yb, cb)
                out = None
            if len(reqs) > 400:
                msgs.append("%s:%s did not terminate within the horizon" % (cfg, routine))
                continue
            gy = int.from_bytes(yb.raw, "little")
            if gy >= ref.r:
                msgs.append("%s:%s returned y >= r" % (cfg, routine))
            # The property fixes the DISTRIBUTION of y (uniform on [0, r)), not the protocol by which the random source is consumed. The
            # exact-rejection-sampling model below is the one of the digit protocol (8-byte requests, one base-|x| digit each); a library
            # that draws y in another way (one 32-byte request with rejection, say) is only held to the protocol-independent
            # post-conditions: y < r, digits consistent with y, result = base^y, termination.
            digit_protocol = all(n == 8 for n in reqs)
            if not digit_protocol:
                OTHER_PROTOCOL.add("%s:%s" % (routine, sorted(set(reqs))))
            if digit_protocol and gy not in (y, y_alt):
                msgs.append("%s:%s returned y = %x, exact rejection sampling of the stream gives %x" % (cfg, routine, gy, y))
            if out is not None:
                if exp is None or exp[0] != gy:
                    exp = (gy, ref.f12_pow(base(a), gy % ref.r)) if case.get("python") else (gy, None)
                pivot = L.out("vk_fq12_exp256", 576, Bn, L.bi(gy, 256))
                if out.raw != pivot:
                    msgs.append("%s:%s result != base^y (generic exponentiation)" % (cfg, routine))
                if exp[1] is not None and out.raw != L.f12(exp[1]):
                    msgs.append("%s:%s result != base^y (Python pow)" % (cfg, routine))
            else:
                step = L.size["bigint64"]
                got = [int.from_bytes(px.raw[step * i:step * i + 8], "little") for i in range(4)]
                if sum(c * X**i for i, c in enumerate(got)) != gy:
                    msgs.append("%s:powersofx_random digits inconsistent with y" % cfg)
    return msgs


def menu(seed):
    f = alpha.filler(seed, "c07d", 0, 63) % X
    return [0, 1, X - 1, X, 2**64 - 1, f]


def crafted_digit_tuples(seed):
    """digit tuples chosen by an INTERNAL boundary of the recombination y = c0 + c1|x| + c2|x|^2 + c3|x|^3 (the analogue of the crafted
    Montgomery inputs): one digit c_i is solved for so that a 32-bit word of the partial product c_i*|x|^i is all ones (the word just
    above the bit length of |x|^i, the only place where that can happen), and the lower digits are maximal so that their sum carries
    into that word - plus the same tuples with the lower digits zero (no carry), and with one-less / one-more in the solved digit.
    A word-wise accumulation that drops or stops a carry at an all-ones word shows here and nowhere near an operand boundary."""
    out = []
    fill = alpha.filler(seed, "c07craft", 0, 62) % X
    for i in (1, 2, 3):
        w = 2 * i                                   # |x|^i has just under 64*i bits: word w = bits 64i .. 64i+31 of the product
        XI = X**i
        lo = 0xFFFFFFFF << (32 * w)
        top_room = (X * XI) >> (32 * (w + 1))       # values the bits above word w can take
        for hi in sorted({0, 1, 2, top_room // 3, top_room // 2, max(0, top_room - 2), alpha.filler(seed, "c07hi%d" % i, 0, 40) % max(1, top_room)}):
            target = (hi << (32 * (w + 1))) | lo
            c = -(-target // XI)                    # smallest c with c * |x|^i >= target
            for cc in (c - 1, c, c + 1):
                if not (0 <= cc < X):
                    continue
                if cc == c and ((cc * XI) >> (32 * w)) & 0xFFFFFFFF != 0xFFFFFFFF:
                    continue                        # no multiple with that word all ones for this hi
                for lower in (X - 1, 0, fill):
                    for higher in (0, 1, fill):
                        t = [lower] * i + [cc] + [higher] * (3 - i)
                        if sum(d * X**k for k, d in enumerate(t)) < ref.r:
                            out.append(t)
    return alpha.dedup(tuple(t) for t in out)


def sequences(seed, tier):
    default = alpha.filler(seed, "c07dd", 0, 62) % X
    m = menu(seed)
    n = 12
    seqs = [[]]
    for i in range(n):
        for v in m:
            seqs.append([default] * i + [v])
    for i, j in itertools.combinations(range(n), 2):
        for v, w in itertools.product(m, m):
            s = [default] * (j + 1)
            s[i], s[j] = v, w
            seqs.append(s)
    special = [[0, 0, X - 1, X - 1], [1, 0, X - 1, X - 1], [2, 0, X - 1, X - 1], [X - 1, X - 1, X - 1, X - 1], [0, 0, 0, 0], [1, 0, 0, 0],
               [X, X, X, 0, 0, X - 1, X - 1], [1, 0, X - 1, X - 1, 0, 0, X - 1, X - 1]]
    return default, alpha.dedup(tuple(s) for s in seqs + special + [list(t) for t in crafted_digit_tuples(seed)])


def shards(ctx):
    for c in CONFIGS:
        build.build(c)
    out = []
    for a in base_exps(ctx.seed, ctx.tier):
        for part in range(8):
            out.append({"sub": "exp", "a": "%x" % a, "part": part, "parts": 8})
    out.append({"sub": "group"})
    out.append({"sub": "platform"})
    for part in range(16):
        out.append({"sub": "random", "part": part, "parts": 16})
    return out


def eval_platform(case):
    """the GT exponentiations of harness/platform_vectors.cpp on three native back ends and executed under the ILP32 data model (static i386
    build): see C03's eval_platform; only the GT groups are judged here"""
    from checks import c03
    return c03.eval_platform(groups=("gt_multiply", "gt_multiply_random"))


def run_shard(ctx, shard):
    sub = shard["sub"]
    if sub == "platform":
        msgs = eval_platform({})
        ctx.ok(True, "platform-vectors", n=60)
        if msgs:
            ctx.fail({"sub": "platform"}, "; ".join(msgs[:3]), sig="platform")
        return
    if sub == "exp":
        a = int(shard["a"], 16)
        S = alpha.scalars(256, ctx.seed, ctx.tier)
        if a == 0 and ctx.tier == "quick":
            S = S[::4]
        for i, k in enumerate(S[shard["part"]::shard["parts"]]):
            case = {"sub": "exp", "a": "%x" % a, "k": "%x" % k}
            if ctx.tier == "quick" and i % 3 and k < 2**256 - 64:
                case["cfgs"] = ["asm"]
            msgs = eval_case(case)
            ctx.ok(a % ref.r != 0 and k > 1, "exp:" + ("k>=r" if k >= ref.r else "k<r"), n=6 * len(case.get("cfgs", CONFIGS)))
            ctx.sample(case, limit=1)
            if msgs:
                for fam in sorted(set(m.split(":")[1] for m in msgs)):
                    ctx.fail(case, "base=e^%x exponent=%x wrong via %s" % (a, k, [m for m in msgs if m.split(":")[1] == fam]), sig="exp:" + fam)
            if ctx.out_of_time():
                return
    elif sub == "group":
        B = base_exps(ctx.seed, ctx.tier)
        for a, b in itertools.product(B, B):
            case = {"sub": "group", "a": "%x" % a, "b": "%x" % b}
            msgs = eval_case(case)
            ctx.ok(a != 0 and b != 0, "group", n=5 * len(CONFIGS))
            ctx.sample(case, limit=1)
            if msgs:
                ctx.fail(case, "; ".join(msgs), sig="group:" + msgs[0].split(":")[1])
    elif sub == "random":
        default, seqs = sequences(ctx.seed, ctx.tier)
        B = base_exps(ctx.seed, ctx.tier)
        for i, s in list(enumerate(seqs))[shard["part"]::shard["parts"]]:
            case = {"sub": "random", "a": "%x" % B[1 + i % (len(B) - 1)], "answers": ["%x" % v for v in s], "default": "%x" % default,
                    "python": (i % 16 == 0) or len(s) <= 2, "cfgs": CONFIGS if (i % 8 == 0 or ctx.tier == "thorough") else ["asm"]}
            msgs = eval_case(case)
            dev = sum(1 for v in s if v != default)
            rej = sum(1 for v in s if v >= X)
            ctx.ok(True, "random:dev%d:rej%d" % (min(dev, 3), min(rej, 2)), n=3 * len(case["cfgs"]))
            for o in sorted(OTHER_PROTOCOL):
                ctx.outcomes["random:not-the-digit-protocol(post-conditions only):" + o] += 1
            ctx.sample(case, limit=1)
            if msgs:
                ctx.fail(case, "; ".join(msgs[:4]), sig="random:" + msgs[0].split(":")[1].split(" ")[0])
            if ctx.out_of_time():
                return


def replay(ctx, case):
    return eval_case(case)


def finish(merged, cov):
    for need in ("exp:k>=r", "exp:k<r", "group", "random:dev0:rej0", "random:dev2:rej2", "random:dev1:rej1"):
        if not merged.outcomes.get(need):
            return "outcome class %s never exercised" % need
    cov["traces_validated_against_impl"] = merged.evaluations
    cov["states"] = merged.evaluations
    cov["transitions"] = merged.evaluations
    return None
