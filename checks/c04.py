"""C04 - extension-field tower Fq2/Fq6/Fq12 implements the defining polynomial arithmetic (engine A)."""
import itertools

from vlib import alpha, build, ffi, ref

PROPERTY = "C04"
LEVEL = "model_checking"
RULE = ("bounded-exhaustive: element alphabets (all of C^2 for Fq2 with C={0,1,-1,2,(q-1)/2,fillers}; vectors over {0,1,-1,2,filler} covering "
        "every zero/non-zero support pattern, unit vectors, embedded subfields for Fq6/Fq12) x every public member (unary: all elements; "
        "binary: all ordered pairs; sparse multiplications: all sparse-operand shapes; Frobenius: powers 0..25, 2^32-1, 10^6+3) on 3 back ends, "
        "each compared with schoolbook arithmetic in Fq[u]/(u^2+1), Fq2[v]/(v^3-(u+1)), Fq6[w]/(w^2-v). distinct by construction; "
        "non-trivial = some operand outside {0,1}")
ASSUMPTIONS = ["vlib/ref.py quotient-ring arithmetic is the ground truth (cross-checked against the flat Fq[w]/(w^12-2w^6+2) model)",
               "inverse / square root are checked by their defining relation (x*x^-1 = 1, s^2 = a), which determines the inverse uniquely and the root up to sign",
               "Fq2::compare is pinned to (c1, c0) lexicographic order of internal residues"]
CONFIGS = ["asm", "c64", "c32", "o0"]

FIELDS = {
    "fq2": dict(n=2, size=96, add=ref.f2_add, sub=ref.f2_sub, mul=ref.f2_mul, neg=ref.f2_neg, one=ref.F2_ONE, zero=ref.F2_ZERO, frob=ref.f2_frob, bytes=ref.f2_bytes),
    "fq6": dict(n=6, size=288, add=ref.f6_add, sub=ref.f6_sub, mul=ref.f6_mul, neg=ref.f6_neg, one=ref.F6_ONE, zero=ref.F6_ZERO, frob=ref.f6_frob, bytes=ref.f6_bytes),
    "fq12": dict(n=12, size=576, add=ref.f12_add, sub=ref.f12_sub, mul=ref.f12_mul, neg=ref.f12_neg, one=ref.F12_ONE, zero=ref.F12_ZERO, frob=ref.f12_frob, bytes=ref.f12_bytes),
}
FROB_POWERS = list(range(26)) + [2**32 - 1, 10**6 + 3]


def flat(x):
    if isinstance(x, int):
        return [x]
    out = []
    for c in x:
        out += flat(c)
    return out


def unflat(field, v):
    v = [int(t, 16) if isinstance(t, str) else t for t in v]
    if field == "fq2":
        return (v[0], v[1])
    if field == "fq6":
        return ((v[0], v[1]), (v[2], v[3]), (v[4], v[5]))
    return (((v[0], v[1]), (v[2], v[3]), (v[4], v[5])), ((v[6], v[7]), (v[8], v[9]), (v[10], v[11])))


def hexl(x):
    return ["%x" % c for c in flat(x)]


def packf(L, field, x):
    return {"fq2": L.f2, "fq6": L.f6, "fq12": L.f12}[field](x)


def unpackf(L, field, b):
    return {"fq2": L.unf2, "fq6": L.unf6, "fq12": L.unf12}[field](b)


def elements(field, seed, tier):
    if field == "fq2":
        return alpha.fq2_alphabet(seed, 2 if tier == "quick" else 3)
    if field == "fq6":
        return alpha.dedup(alpha.fq6_alphabet(seed, limit=24 if tier == "quick" else 64) + [unflat("fq6", v) for v in alpha.unit_plus_one(6, seed, "f6")])
    al = alpha.fq12_alphabet(seed, limit=24 if tier == "quick" else 4096)      # thorough: EVERY zero/non-zero support pattern
    # embedded subfield elements
    f2s = alpha.fq2_alphabet(seed, 1)
    al += [ref.f12_from_f2(a) for a in f2s[:: 7]]
    al += [(a, ref.F6_ZERO) for a in alpha.fq6_alphabet(seed, 8)[:: 3]]
    # (+-1 at one position, generic at another): appended last, so the binary operations' prefix is unchanged and the unary ones see all
    al += [unflat("fq12", v) for v in alpha.unit_plus_one(12, seed, "f12")]
    return alpha.dedup(al)


def sparse_operands(seed):
    f = alpha.fillers(seed, "sp", 6, ref.q)
    vals = [ref.F2_ZERO, ref.F2_ONE, (0, 1), (ref.q - 1, 0), (f[0], f[1]), (f[2], 0), (0, f[3])]
    return vals


def check_out(L, field, out, exp, what, msgs):
    F = FIELDS[field]
    if not L.canonical_ext(out, F["n"]):
        msgs.append("%s: non-canonical component" % what)
    got = unpackf(L, field, out)
    if got != exp:
        msgs.append("%s: wrong value" % what)


def eval_case(case):
    L = ffi.lib(case["cfg"])
    field = case["field"]
    F = FIELDS[field]
    op = case["op"]
    pre = "vk_%s_" % field
    size = F["size"]
    msgs = []
    a = unflat(field, case["a"])
    b = unflat(field, case["b"]) if "b" in case else None
    A = packf(L, field, a)
    if op in ("add", "subtract", "multiply"):
        exp = {"add": F["add"], "subtract": F["sub"], "multiply": F["mul"]}[op](a, b)
        check_out(L, field, L.out(pre + op, size, A, packf(L, field, b)), exp, op, msgs)
    elif op == "equal":
        got = L.call(pre + "equal", A, packf(L, field, b))
        if got != (1 if a == b else 0):
            msgs.append("equal = %d" % got)
        if field == "fq2":
            got = L.call("vk_fq2_compare", A, packf(L, field, b))
            if got != ref.f2_lib_cmp(a, b):
                msgs.append("Fq2::compare = %d expected %d" % (got, ref.f2_lib_cmp(a, b)))
    elif op == "unary":
        check_out(L, field, L.out(pre + "negate", size, A), F["neg"](a), "negate", msgs)
        check_out(L, field, L.out(pre + "multiply2", size, A), F["add"](a, a), "multiply2", msgs)
        check_out(L, field, L.out(pre + "square", size, A), F["mul"](a, a), "square", msgs)
        check_out(L, field, L.out(pre + "copy", size, A), a, "copy", msgs)
        if L.call(pre + "is_zero", A) != (1 if a == F["zero"] else 0):
            msgs.append("is_zero wrong")
        inv_out = L.out(pre + "inverse", size, A)
        inv = unpackf(L, field, inv_out)
        if not L.canonical_ext(inv_out, F["n"]):
            msgs.append("inverse: non-canonical")
        if a == F["zero"]:
            if inv != F["zero"]:
                msgs.append("inverse(0) != 0")
        elif F["mul"](a, inv) != F["one"]:
            msgs.append("a * inverse(a) != 1")
        wb = L.out(pre + "write_be", size, A)
        if wb != F["bytes"](a):
            msgs.append("write_big_endian bytes differ from the model encoding")
        rb = L.out(pre + "read_be", size, wb)
        if rb != A:
            msgs.append("read_big_endian(write_big_endian(a)) != a")
        if field == "fq2":
            check_out(L, field, L.out("vk_fq2_multiply_by_nonresidue", size, A), ref.f2_mul(a, ref.XI), "multiply_by_nonresidue", msgs)
            n = L.out("vk_fq2_norm", 48, A)
            if L.unfq(n) != ref.f2_norm(a) or not L.canonical_fq(n):
                msgs.append("norm wrong")
            leg = L.call("vk_fq2_legendre", A)
            exp_leg = 0 if a == ref.F2_ZERO else (1 if ref.f2_is_square(a) else -1)
            if leg != exp_leg:
                msgs.append("legendre = %d expected %d" % (leg, exp_leg))
            sq = ref.f2_sqr(a)
            s_out = L.out("vk_fq2_square_root", size, packf(L, field, sq))
            s = L.unf2(s_out)
            if ref.f2_sqr(s) != sq or not L.canonical_ext(s_out, 2):
                msgs.append("square_root(a^2)^2 != a^2")
        elif field == "fq6":
            check_out(L, field, L.out("vk_fq6_multiply_by_nonresidue", size, A), ref.f6_mul_by_v(a), "multiply_by_nonresidue", msgs)
        else:
            check_out(L, field, L.out("vk_fq12_conjugate", size, A), ref.f12_conj(a), "conjugate", msgs)
    elif op == "frobenius":
        for k in FROB_POWERS:
            exp = F["frob"](a, k)
            out = L.out(pre + "frobenius_map", size, A, ffi.c_uint(k))
            if unpackf(L, field, out) != exp or not L.canonical_ext(out, F["n"]):
                msgs.append("frobenius_map(power=%d) wrong" % k)
    elif op == "exp":
        w = case["w"]
        e = int(case["e"], 16)
        exp = {"fq2": ref.f2_pow, "fq6": ref.f6_pow, "fq12": ref.f12_pow}[field](a, e)
        check_out(L, field, L.out(pre + "exp%d" % w, size, A, L.bi(e, w)), exp, "exponentiate<%d>" % w, msgs)
    elif op == "sparse":
        cs = [tuple(int(t, 16) for t in c) for c in case["c"]]
        if field == "fq6":
            if len(cs) == 1:
                exp = ref.f6_mul(a, (ref.F2_ZERO, cs[0], ref.F2_ZERO))
                out = L.out("vk_fq6_multiply_by_c1", size, A, L.f2(cs[0]))
                what = "multiply_by_c1"
            else:
                exp = ref.f6_mul(a, (cs[0], cs[1], ref.F2_ZERO))
                out = L.out("vk_fq6_multiply_by_c01", size, A, L.f2(cs[0]), L.f2(cs[1]))
                what = "multiply_by_c01"
        else:
            exp = ref.f12_mul(a, ((cs[0], cs[1], ref.F2_ZERO), (ref.F2_ZERO, cs[2], ref.F2_ZERO)))
            out = L.out("vk_fq12_multiply_by_c014", size, A, L.f2(cs[0]), L.f2(cs[1]), L.f2(cs[2]))
            what = "multiply_by_c014"
            # output aliasing the first operand is how the Miller loop uses it
            bf = L.buf(size, A)
            L.call("vk_fq12_multiply_by_c014", bf, bf, L.f2(cs[0]), L.f2(cs[1]), L.f2(cs[2]))
            if bf.raw != out:
                msgs.append("multiply_by_c014(out = a) differs")
        check_out(L, field, out, exp, what, msgs)
    elif op == "cyclotomic":
        # m = a^((q^6-1)(q^2+1)) is checked by the relation m * a^(q^2) * a = conj(a)^(q^2) * conj(a)
        m_out = L.out("vk_fq12_map_to_cyclotomic", 576, A)
        m = L.unf12(m_out)
        lhs = ref.f12_mul(m, ref.f12_mul(ref.f12_frob(a, 2), a))
        ca = ref.f12_conj(a)
        rhs = ref.f12_mul(ref.f12_frob(ca, 2), ca)
        if a != ref.F12_ZERO and (lhs != rhs or not L.canonical_ext(m_out, 12)):
            msgs.append("map_to_cyclotomic(a) is not a^((q^6-1)(q^2+1))")
        if a != ref.F12_ZERO:
            sq = L.out("vk_fq12_square_cyclotomic", 576, m_out)
            if L.unf12(sq) != ref.f12_mul(m, m) or not L.canonical_ext(sq, 12):
                msgs.append("square_cyclotomic differs from squaring on a cyclotomic-subgroup element")
            for e in [int(t, 16) for t in case["es"]]:
                exp = ref.f12_pow(m, e)
                o1 = L.out("vk_fq12_exp_cyc_restrict256", 576, m_out, L.bi(e, 256))
                o2 = L.out("vk_fq12_exp_gt_nodiv256", 576, m_out, L.bi(e, 256))
                if L.unf12(o1) != exp or o2 != o1:
                    msgs.append("exponentiate_restrict_cyclotomic_nodiv / exponentiate_gt_nodiv differ from pow (e=%x)" % e)
    else:
        raise ValueError(op)
    return msgs


def shards(ctx):
    for c in CONFIGS:
        build.build(c)
    out = []
    for cfg in CONFIGS:
        for field in FIELDS:
            for op in ("add", "subtract", "multiply", "equal"):
                parts = 4 if field == "fq12" else 2
                for k in range(parts):
                    out.append({"cfg": cfg, "field": field, "op": op, "part": k, "parts": parts})
            for op in ("unary", "frobenius", "exp"):
                for k in range(2):
                    out.append({"cfg": cfg, "field": field, "op": op, "part": k, "parts": 2})
        out.append({"cfg": cfg, "field": "fq6", "op": "sparse", "part": 0, "parts": 1})
        for k in range(2):
            out.append({"cfg": cfg, "field": "fq12", "op": "sparse", "part": k, "parts": 2})
            out.append({"cfg": cfg, "field": "fq12", "op": "cyclotomic", "part": k, "parts": 2})
    return out


def run_shard(ctx, shard):
    cfg, field, op = shard["cfg"], shard["field"], shard["op"]
    E = elements(field, ctx.seed, ctx.tier)
    F = FIELDS[field]
    triv = lambda x: x in (F["zero"], F["one"])

    def emit(case, nontrivial, outcome):
        msgs = eval_case(case)
        ctx.ok(nontrivial, outcome)
        ctx.sample(case, limit=1)
        if msgs:
            ctx.fail(case, "; ".join(msgs), sig="%s:%s" % (field, case["op"]))

    part, parts = shard["part"], shard["parts"]
    if op in ("add", "subtract", "multiply", "equal"):
        S = E
        if field == "fq12" and len(S) > 120:
            # binary operations: all ordered pairs over a prefix (sparse and dense patterns alternate in the alphabet order)
            S = S[:120] if ctx.tier == "quick" else S[:1200]
        pairs = list(itertools.product(S, S))[part::parts]
        if cfg != "asm":
            pairs = pairs[::3]       # the tower code is shared; the base field differs and is covered by C02/C03
        for a, b in pairs:
            emit({"cfg": cfg, "field": field, "op": op, "a": hexl(a), "b": hexl(b)}, not (triv(a) and triv(b)), "%s:%s" % (field, op))
            if ctx.out_of_time():
                return
    elif op == "unary":
        for a in E[part::parts]:
            emit({"cfg": cfg, "field": field, "op": "unary", "a": hexl(a)}, not triv(a), field + ":unary")
    elif op == "frobenius":
        S = E if field == "fq2" else (E[::3] if ctx.tier == "quick" else E[:: max(2, len(E) // 400)])
        for a in S[part::parts]:
            emit({"cfg": cfg, "field": field, "op": "frobenius", "a": hexl(a)}, not triv(a), field + ":frobenius")
            if ctx.out_of_time():
                return
    elif op == "exp":
        S = E[:: max(1, len(E) // (6 if ctx.tier == "quick" else 14))]
        exps = {64: [0, 1, 2, 3, 2**64 - 1, 2**63, ref.X_ABS], 256: [0, 1, ref.r, 2**256 - 1, 2**255, alpha.filler(ctx.seed, "c4e", 0, 256)],
                384: [0, 1, ref.q, ref.q - 1, 2**384 - 1, (ref.q - 3) // 4],
                # the exponent type is a template parameter: a width beyond every width the library itself uses, with values >= 2^384
                768: [ref.q**2, (ref.q**2 - 1) // 2, 2**768 - 1, 2**384, 1]}
        for a in S[part::parts]:
            for w, es in exps.items():
                for e in (es if ctx.tier == "thorough" else es[:5]):
                    emit({"cfg": cfg, "field": field, "op": "exp", "w": w, "e": "%x" % e, "a": hexl(a)}, not triv(a) and e > 1, field + ":exp")
            if ctx.out_of_time():
                return
    elif op == "sparse":
        sp = sparse_operands(ctx.seed)
        S = E[:: max(1, len(E) // (10 if ctx.tier == "quick" else 30))]
        if field == "fq6":
            for a in S:
                for c1 in sp:
                    emit({"cfg": cfg, "field": field, "op": "sparse", "a": hexl(a), "c": [hexl(c1)]}, not triv(a), "fq6:c1")
                for c0, c1 in itertools.product(sp, sp):
                    emit({"cfg": cfg, "field": field, "op": "sparse", "a": hexl(a), "c": [hexl(c0), hexl(c1)]}, not triv(a), "fq6:c01")
        else:
            sp3 = sp if ctx.tier == "thorough" else sp[:5]
            for a in S[part::parts]:
                for c0, c1, c4 in itertools.product(sp3, sp3, sp3):
                    emit({"cfg": cfg, "field": field, "op": "sparse", "a": hexl(a), "c": [hexl(c0), hexl(c1), hexl(c4)]}, not triv(a), "fq12:c014")
                if ctx.out_of_time():
                    return
    elif op == "cyclotomic":
        S = E[:: max(1, len(E) // (8 if ctx.tier == "quick" else 30))]
        es = [0, 1, 2, ref.r - 1, 2**256 - 1, alpha.filler(ctx.seed, "c4c", 0, 256)]
        for a in S[part::parts]:
            emit({"cfg": cfg, "field": field, "op": "cyclotomic", "a": hexl(a), "es": ["%x" % e for e in (es if ctx.tier == "thorough" else es[:3] + es[4:5])]}, not triv(a), "fq12:cyclotomic")
            if ctx.out_of_time():
                return


def replay(ctx, case):
    return eval_case(case)


def finish(merged, cov):
    for need in ("fq2:multiply", "fq6:multiply", "fq12:multiply", "fq12:frobenius", "fq6:c1", "fq6:c01", "fq12:c014", "fq12:cyclotomic", "fq2:unary"):
        if not merged.outcomes.get(need):
            return "outcome class %s never exercised" % need
    cov["traces_validated_against_impl"] = merged.evaluations
    cov["states"] = merged.evaluations
    cov["transitions"] = merged.evaluations
    return None
