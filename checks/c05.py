"""C05 - G1 / G2 point arithmetic is the elliptic-curve group law (engine A)."""
import itertools

from vlib import alpha, build, ffi, ref

PROPERTY = "C05"
LEVEL = "model_checking"
RULE = ("bounded-exhaustive: ALL ordered pairs of the point alphabet (identity, +-k*G for k in {1,2,3,4,(r+-1)/2,fillers}, curve points outside "
        "the subgroup incl. the order-3 point (0,+-2), their negatives and doubles) x ALL pairs of Jacobian representatives (z in {1,2,-1,filler}; "
        "identity as (0,1,0),(1,1,0),(Gx,Gy,0)) x {add, add_mixed, double, negate, equal, from_affine, from_projective, affine negate/equal} "
        "through the C API and the C++ members on 3 back ends; results normalised by the definition (x/z^2, y/z^3) in Python and compared with the "
        "affine chord-and-tangent law; plus crafted G1 points for which an intermediate of the doubling / mixed-addition formulas (X^2, Y^4, (x2-X1)^2 as stored residues) sits at k q / f, f in {2,3,4,8}, and Jacobian representatives chosen so that the X coordinate the formulas output has a stored residue next to q, 0 or k q / 4. distinct by construction; non-trivial = neither operand the identity")
ASSUMPTIONS = ["vlib/ref.py affine chord-and-tangent law is the ground truth", "results are compared as group elements (any Jacobian representative of the right point is accepted)"]
CONFIGS = ["asm", "c64", "c32", "o0"]
NAME = {1: "g1", 2: "g2"}


def reps(g, seed, tier):
    """[(label, point, z or identity-triple)]"""
    out = []
    for lab, P in alpha.curve_points(g, seed, tier):
        if P is None:
            for i, t in enumerate(alpha.identity_forms(g)):
                out.append(("O#%d" % i, None, t))
        else:
            for i, z in enumerate(alpha.z_values(g, seed, tier)):
                out.append(("%s/z%d" % (lab, i), P, z))
    return out


def enc_pt(P, g):
    if P is None:
        return None
    return ["%x" % c for c in (P if g == 1 else (P[0][0], P[0][1], P[1][0], P[1][1]))]


def dec_pt(v, g):
    if v is None:
        return None
    v = [int(t, 16) for t in v]
    return (v[0], v[1]) if g == 1 else ((v[0], v[1]), (v[2], v[3]))


def enc_z(z, g):
    if z is None:
        return None
    if g == 1:
        return ["%x" % c for c in (z if isinstance(z, tuple) else (z,))]
    if len(z) == 3:
        return ["%x" % c for t in z for c in t]
    return ["%x" % c for c in z]


def dec_z(v, g):
    if v is None:
        return None
    v = [int(t, 16) for t in v]
    if g == 1:
        return tuple(v) if len(v) == 3 else v[0]
    if len(v) == 6:
        return ((v[0], v[1]), (v[2], v[3]), (v[4], v[5]))
    return (v[0], v[1])


def native(L, g, P, z):
    return L.proj(P, g, z)


def eval_case(case):
    L = ffi.lib(case["cfg"])
    g = case["g"]
    n = NAME[g]
    op = case["op"]
    psize = L.size[n]
    asize = L.size[n + "affine"]
    P = dec_pt(case["p"], g)
    zp = dec_z(case.get("zp"), g)
    A = native(L, g, P, zp)
    msgs = []

    def check_proj(out, exp, what):
        if not L.canonical_ext(out, 3 * g):
            msgs.append(what + ": non-canonical coordinate")
        got = L.unproj(out, g)
        if got != exp:
            msgs.append("%s: result is not the group-law point" % what)
        elif got is not None and not ref.on_curve(got, g):
            msgs.append(what + ": off curve")

    if op in ("add", "add_c", "add_mixed", "add_mixed_c", "equal"):
        Q = dec_pt(case["q"], g)
        zq = dec_z(case.get("zq"), g)
        if op in ("add", "add_c"):
            Bn = native(L, g, Q, zq)
            fn = ("vk_%s_add" % n) if op == "add" else ("embedded_pairing_bls12_381_%s_add" % n)
            check_proj(L.out(fn, psize, A, Bn), ref.pt_add(P, Q, g), op)
        elif op in ("add_mixed", "add_mixed_c"):
            Bn = L.aff(Q, g)
            fn = ("vk_%s_add_mixed" % n) if op == "add_mixed" else ("embedded_pairing_bls12_381_%s_add_mixed" % n)
            check_proj(L.out(fn, psize, A, Bn), ref.pt_add(P, Q, g), op)
        else:
            Bn = native(L, g, Q, zq)
            got = L.call("vk_%s_equal" % n, A, Bn)
            got2 = L.call("embedded_pairing_bls12_381_%s_equal" % n, A, Bn)
            if got != (1 if P == Q else 0) or (got2 & 1) != got:
                msgs.append("Projective::equal = %d/%d but points are %s" % (got, got2, "equal" if P == Q else "different"))
    elif op == "unary":
        check_proj(L.out("vk_%s_multiply2" % n, psize, A), ref.pt_add(P, P, g), "double")
        check_proj(L.out("embedded_pairing_bls12_381_%s_double" % n, psize, A), ref.pt_add(P, P, g), "double (C)")
        check_proj(L.out("vk_%s_negate" % n, psize, A), ref.pt_neg(P, g), "negate")
        check_proj(L.out("embedded_pairing_bls12_381_%s_negate" % n, psize, A), ref.pt_neg(P, g), "negate (C)")
        check_proj(L.out("vk_%s_copy" % n, psize, A), P, "copy")
        if L.call("vk_%s_is_zero" % n, A) != (1 if P is None else 0):
            msgs.append("is_zero wrong")
        z_is_one = (P is None) or zp in (None, 1, (1, 0))
        if L.call("vk_%s_is_normalized" % n, A) != (1 if z_is_one else 0):
            msgs.append("is_normalized wrong")
        for fn in ("vk_%saffine_from_projective" % n, "embedded_pairing_bls12_381_%saffine_from_projective" % n):
            aff = L.out(fn, asize, A)
            if L.unaff(aff, g) != P:
                msgs.append("from_projective: wrong affine point")
            if L.aff_inf_flag(aff, g) not in (0, 1):
                msgs.append("from_projective: infinity flag is not a bool")
            if P is not None and not L.canonical_ext(aff, 2 * g):
                msgs.append("from_projective: non-canonical")
        # add through the same object: out = a
        bf = L.buf(psize, A)
        L.call("vk_%s_multiply2" % n, bf, bf)
        if L.unproj(bf.raw, g) != ref.pt_add(P, P, g):
            msgs.append("double(out = a) wrong")
    elif op == "affine":
        Q = dec_pt(case["q"], g)
        An, Bn = L.aff(P, g), L.aff(Q, g)
        if case.get("garbage"):
            # identities with different (meaningless) coordinates must still be equal
            gx = L.coord(ref.G1_GEN[0] if g == 1 else ref.G2_GEN[0], g)
            if P is None:
                An = gx + An[len(gx):]
        for fn in ("vk_%saffine_equal" % n, "embedded_pairing_bls12_381_%saffine_equal" % n):
            if (L.call(fn, An, Bn) & 1) != (1 if P == Q else 0):
                msgs.append("Affine::equal wrong")
        for fn in ("vk_%saffine_negate" % n, "embedded_pairing_bls12_381_%saffine_negate" % n):
            neg = L.out(fn, asize, An)
            if L.unaff(neg, g) != ref.pt_neg(P, g):
                msgs.append("Affine::negate wrong")
        for fn in ("vk_%s_from_affine" % n, "embedded_pairing_bls12_381_%s_from_affine" % n):
            pr = L.out(fn, psize, An)
            if L.unproj(pr, g) != P:
                msgs.append("from_affine wrong")
        if L.call("vk_%saffine_is_zero" % n, An) != (1 if P is None else 0):
            msgs.append("Affine::is_zero wrong")
        if P is not None and L.call("vk_%saffine_is_on_curve" % n, An) != 1:
            msgs.append("is_on_curve false for a curve point")
        if P is not None:
            sub = L.call("vk_%saffine_in_subgroup" % n, An)
            if sub != (1 if ref.in_subgroup(P, g) else 0):
                msgs.append("is_in_correct_subgroup wrong")
    else:
        raise ValueError(op)
    return msgs


def shards(ctx):
    for c in CONFIGS:
        build.build(c)
    out = []
    for cfg in CONFIGS:
        for g in (1, 2):
            for op in ("add", "add_c", "add_mixed", "add_mixed_c", "equal"):
                parts = 6 if op in ("add", "equal") else 3
                for k in range(parts):
                    out.append({"cfg": cfg, "g": g, "op": op, "part": k, "parts": parts})
            out.append({"cfg": cfg, "g": g, "op": "unary"})
            if g == 1:
                out.append({"cfg": cfg, "g": g, "op": "formula-boundary"})
            out.append({"cfg": cfg, "g": g, "op": "affine"})
    return out


def run_shard(ctx, shard):
    cfg, g, op = shard["cfg"], shard["g"], shard["op"]
    R = reps(g, ctx.seed, ctx.tier)
    pts = alpha.curve_points(g, ctx.seed, ctx.tier)

    def emit(case, nontrivial, outcome):
        msgs = eval_case(case)
        ctx.ok(nontrivial, outcome)
        ctx.sample(case, limit=1)
        if msgs:
            ctx.fail(case, "; ".join(msgs), sig="g%d:%s" % (g, case["op"]))

    def klass(P, Q):
        if P is None or Q is None:
            return "identity-operand"
        if P == Q:
            return "equal-operands"
        if P == ref.pt_neg(Q, g):
            return "opposite-operands"
        return "generic"

    if op in ("add", "equal"):
        pairs = list(itertools.product(R, R))[shard["part"]::shard["parts"]]
        if cfg != "asm" and ctx.tier == "quick":
            pairs = pairs[::2]
        for (la, P, zp), (lb, Q, zq) in pairs:
            emit({"cfg": cfg, "g": g, "op": op, "p": enc_pt(P, g), "zp": enc_z(zp, g), "q": enc_pt(Q, g), "zq": enc_z(zq, g)},
                 P is not None and Q is not None, "g%d:%s:%s" % (g, op, klass(P, Q)))
            if ctx.out_of_time():
                return
    elif op == "add_c":
        # the C entry point is the same member behind a cast: all point pairs, first representative pairs only
        pairs = list(itertools.product(R, R))[shard["part"]::shard["parts"]][::4]
        for (la, P, zp), (lb, Q, zq) in pairs:
            emit({"cfg": cfg, "g": g, "op": op, "p": enc_pt(P, g), "zp": enc_z(zp, g), "q": enc_pt(Q, g), "zq": enc_z(zq, g)},
                 P is not None and Q is not None, "g%d:add_c:%s" % (g, klass(P, Q)))
    elif op in ("add_mixed", "add_mixed_c"):
        pairs = list(itertools.product(R, pts))[shard["part"]::shard["parts"]]
        if op == "add_mixed_c":
            pairs = pairs[::3]
        for (la, P, zp), (lb, Q) in pairs:
            emit({"cfg": cfg, "g": g, "op": op, "p": enc_pt(P, g), "zp": enc_z(zp, g), "q": enc_pt(Q, g)},
                 P is not None and Q is not None, "g%d:%s:%s" % (g, op, klass(P, Q)))
    elif op == "formula-boundary":
        # points for which an intermediate of the doubling / mixed-addition formulas (X^2, Y^4, (x2 - X1)^2 as stored residues) sits at k q / f:
        # the wrap-around points of the small-multiple steps 3A, 8C, 4HH (alpha.formula_boundary_points_g1)
        FB = alpha.formula_boundary_points_g1()
        G = ref.pt_mul(ref.G1_GEN, 5, 1)
        for lab, P in FB["double"]:
            emit({"cfg": cfg, "g": g, "op": "unary", "p": enc_pt(P, g), "zp": None}, True, "g1:formula-boundary:double")
            for o in ("add", "add_c", "add_mixed", "add_mixed_c"):
                emit({"cfg": cfg, "g": g, "op": o, "p": enc_pt(P, g), "zp": None, "q": enc_pt(P, g), "zq": None}, True, "g1:formula-boundary:" + o)
            emit({"cfg": cfg, "g": g, "op": "add", "p": enc_pt(P, g), "zp": None, "q": enc_pt(G, g), "zq": None}, True, "g1:formula-boundary:add")
            emit({"cfg": cfg, "g": g, "op": "add_mixed", "p": enc_pt(G, g), "zp": None, "q": enc_pt(P, g)}, True, "g1:formula-boundary:add_mixed")
        for lab, P1, P2 in FB["mixed"]:
            for o in ("add_mixed", "add_mixed_c", "add"):
                emit({"cfg": cfg, "g": g, "op": o, "p": enc_pt(P1, g), "zp": None, "q": enc_pt(P2, g), "zq": None}, True, "g1:formula-boundary:" + o)
        # representatives chosen by the OUTPUT: the X coordinate the formulas produce has a stored residue at a boundary (alpha.output_boundary_cases_g1)
        OB = alpha.output_boundary_cases_g1()
        for lab, P, z, Q in OB["add"]:
            for o in ("add", "add_c", "add_mixed", "add_mixed_c"):
                emit({"cfg": cfg, "g": g, "op": o, "p": enc_pt(P, g), "zp": enc_z(z, g), "q": enc_pt(Q, g), "zq": None}, True, "g1:output-boundary:" + o)
        for lab, P, z in OB["double"]:
            emit({"cfg": cfg, "g": g, "op": "unary", "p": enc_pt(P, g), "zp": enc_z(z, g)}, True, "g1:output-boundary:double")
            emit({"cfg": cfg, "g": g, "op": "add", "p": enc_pt(P, g), "zp": enc_z(z, g), "q": enc_pt(P, g), "zq": enc_z(z, g)}, True, "g1:output-boundary:add")
    elif op == "unary":
        for la, P, zp in R:
            emit({"cfg": cfg, "g": g, "op": "unary", "p": enc_pt(P, g), "zp": enc_z(zp, g)}, P is not None, "g%d:unary" % g)
    elif op == "affine":
        for (la, P), (lb, Q) in itertools.product(pts, pts):
            emit({"cfg": cfg, "g": g, "op": "affine", "p": enc_pt(P, g), "q": enc_pt(Q, g)}, P is not None, "g%d:affine" % g)
        emit({"cfg": cfg, "g": g, "op": "affine", "p": None, "q": None, "garbage": True}, False, "g%d:affine:identity-garbage" % g)


def replay(ctx, case):
    return eval_case(case)


def finish(merged, cov):
    for g in (1, 2):
        for k in ("generic", "equal-operands", "opposite-operands", "identity-operand"):
            for op in ("add", "add_mixed"):
                if not merged.outcomes.get("g%d:%s:%s" % (g, op, k)):
                    return "exceptional case class g%d:%s:%s never exercised" % (g, op, k)
    cov["traces_validated_against_impl"] = merged.evaluations
    cov["states"] = merged.evaluations
    cov["transitions"] = merged.evaluations
    return None
