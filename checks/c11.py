"""C11 - WKD-IBE: every key from any delegation history is well-formed and decrypts (engine B)."""
from vlib import build, ffi, ref, wk

PROPERTY = "C11"
LEVEL = "model_checking"
RULE = ("explicit-state search on the real code: abstract state = (kind, slot pattern in {free, fixed(v), hidden}^l); a pure-model BFS enumerates every "
        "reachable abstract state with a shortest witness history; each state is rebuilt on the real library by replaying its history on fresh objects "
        "(deterministic random source) and EVERY enabled transition is applied: keygen / nondelegable_keygen with every attribute list of the alphabet "
        "(per slot absent / value / hidden, both settings of omit-all-unless-present), qualifykey / nondelegable_qualifykey with every list permitted by the "
        "documentation, resamplekey(true/false), adjust_nondelegable between permitted lists; in every successor state the invariant is evaluated: exact "
        "ascending free-slot list, no write beyond the l-len(attrs) slots the Go binding allocates, pairing equations for a0/a1/every b_i/bsig, decryption of "
        "ciphertexts for the accumulated pattern by the key and the master key, flag propagation, re-randomisation. quick: l=2, values {v1,v2}; thorough: l=3 "
        "and special values {0, r+v1, 2^256-1}; the slot count l itself takes boundary values (9, 33, 65; thorough: every 2^k and its neighbours up to 257) with "
        "a fixed set of histories that touch the lowest, highest and word-boundary slots. non-trivial = transition whose list is non-empty")
ASSUMPTIONS = ["the pairing used inside the invariant is the library's (decided by C01)", "dedup by abstract state is sound because control flow in the scheme "
               "code depends only on indices and flags; guarded by replaying up to 3 different witness histories per state in the thorough tier",
               "value 0 (mod r) in a key slot is identified with 'hidden' (h^0 contributes nothing and no b element is kept)"]


def universe(ctx, quick_l=2, quick_names=("v1", "v2")):
    """quick_l / quick_names: the checks that ride on this state graph and are cheap per state (C13) use a larger quick universe"""
    if ctx.tier == "quick":
        return dict(l=quick_l, names=list(quick_names), witnesses=1, adjust="subset")
    return dict(l=3, names=["v1", "v2"], witnesses=2, adjust="subset")


def special_lists(l):
    """thorough: special values on top of the main alphabet (0, r+v1 == v1 mod r, 2^256-1), one special entry per list"""
    out = []
    for nm in ("0", "r+v1", "max", "r", "sp"):
        for i in range(l):
            for om in (False, True):
                out.append({"e": [[i, nm]], "omit": om})
                if l > 1:
                    j = (i + 1) % l
                    ents = sorted([[i, nm], [j, "v2"]])
                    out.append({"e": ents, "omit": om})
    return out


_W = {}


def world(cfg, l, sig, seed):
    k = (cfg, l, sig, seed)
    if k not in _W:
        _W[k] = wk.World(cfg, l, sig, seed)
    return _W[k]


def transitions(state, U, vals, tier):
    lists = wk.list_alphabet(U["l"], U["names"])
    if tier == "thorough":
        lists = lists + special_lists(U["l"])
    else:
        # ids >= 2r need two subtractions of r (2^256/r is about 2.2): one unreduced id on every slot also in the quick tier
        lists = lists + [L for L in special_lists(U["l"]) if len(L["e"]) == 1 and L["e"][0][1] in ("max", "sp") and not L["omit"]]
    out = []
    if state is None:
        for L in lists:
            out.append(["keygen", L])
            out.append(["ndkeygen", L])
        return out
    kind, pat = state
    perm = [L for L in lists if wk.permitted(pat, L, vals)]
    for L in perm:
        out.append(["qualify", L])
        out.append(["ndqualify", L])
    out.append(["resample", True])
    out.append(["resample", False])
    # adjust_nondelegable between permitted lists (the full (from,to) square is C14's; here: every list against 3 targets)
    if perm:
        free = set(wk.free_slots(pat))

        def first(pred):
            for L in perm:
                if pred(L):
                    return [L]
            return []
        # one target of every kind the merge in adjust_nondelegable distinguishes on a parent-free slot: left free, hidden by an entry,
        # given a value, dropped by omit-all; plus the first / middle / last list of the alphabet
        targets = [perm[0], perm[len(perm) // 2], perm[-1]]
        targets += first(lambda L: not L["omit"] and any(i in free and wk.is_hidden(c) for i, c in L["e"]))
        targets += first(lambda L: not L["omit"] and any(i in free and not wk.is_hidden(c) for i, c in L["e"]) and any(i not in {j for j, _ in L["e"]} for i in free))
        targets += first(lambda L: L["omit"] and L["e"])
        seen = set()
        targets = [t for t in targets if not (wk.lkey(t) in seen or seen.add(wk.lkey(t)))]
        for L1 in perm:
            for L2 in targets:
                out.append(["adjust", L1, L2])
                # the two list headers may be views of ONE attribute array (caller code: `to = from; to.length = n;`): same arguments, other memory layout
                e1, e2 = L1["e"], L2["e"]
                lo, sh = (e1, e2) if len(e1) >= len(e2) else (e2, e1)
                if lo[:len(sh)] == sh and (e1 != e2 or L1["omit"] != L2["omit"]):
                    out.append(["adjust", L1, L2, "shared"])
    return out


def classify(op):
    name = op[0]
    if name in ("resample",):
        return name
    lists = [op[1]] + ([op[2]] if name == "adjust" else [])
    hid = any(wk.is_hidden(c) for L in lists for _, c in L["e"])
    om = any(L["omit"] for L in lists)
    return "%s:%s%s" % (name, "hidden-entry" if hid else "plain", "+omit-all" if om else "")


def eval_case(case):
    """case: cfg, l, sig, seed, history (to the source state), op"""
    W = world(case["cfg"], case["l"], case["sig"], case["seed"])
    hist = case["history"]
    op = case["op"]
    key, state = W.replay(hist)
    nxt = wk.model_step(state, op, W.l, W.vals)
    if nxt is None:
        return []
    op2 = list(op)
    if op[0] == "resample":
        op2 = ["resample", op[1], state[1]]
    new = W.apply(key, op2)
    msgs = W.invariant(new, nxt[1])
    a1_old = key.field("a1", W.N.sz["g2"]) if key is not None else None
    a1_new = new.field("a1", W.N.sz["g2"])
    if op[0] in ("keygen", "qualify", "resample"):
        # delegable steps re-randomise: a1 changes and depends on the random stream
        if a1_old is not None and W.L.call("embedded_pairing_bls12_381_g2_equal", a1_old, a1_new) & 1:
            msgs.append("I5: %s did not re-randomise a1" % op[0])
        rng2 = ffi.CounterRng("other-stream")
        key2, _ = W.replay(hist)
        new2 = W.apply(key2, op2, rng2)
        if W.L.call("embedded_pairing_bls12_381_g2_equal", new2.field("a1", W.N.sz["g2"]), a1_new) & 1:
            msgs.append("I5: %s output does not depend on the random stream" % op[0])
    elif op[0] in ("ndqualify", "adjust"):
        if not (W.L.call("embedded_pairing_bls12_381_g2_equal", a1_old, a1_new) & 1):
            msgs.append("I5: non-delegable step changed a1")
    return msgs


def shards(ctx):
    for c in ("asm", "c64", "c32"):
        build.build(c)
    U = universe(ctx)
    vals = wk.values(ctx.seed)
    reach = wk.reachable(U["l"], U["names"], vals, witnesses=U["witnesses"])
    out = []
    for sig in (False, True):
        out.append({"cfg": "asm", "sig": sig, "state": None, "history": []})
        for st, hists in sorted(reach.items(), key=lambda kv: str(kv[0])):
            for wi, h in enumerate(hists):
                if wi > 0 and sig:
                    continue
                out.append({"cfg": "asm", "sig": sig, "state": [st[0], list(st[1])], "history": h, "witness": wi})
    for cfg in ("c64", "c32"):
        out.append({"cfg": cfg, "sig": True, "state": None, "history": []})
    # the 32-bit / ARM-like-ABI build also explores from every 5th key state (qualification, adjustment, resampling code is shared
    # source, but what the compiler makes of it depends on the ABI: char signedness, enum width, word size)
    for k, (st, hists) in enumerate(sorted(reach.items(), key=lambda kv: str(kv[0]))):
        if k % 5 == 2:
            out.append({"cfg": "c32", "sig": False, "state": [st[0], list(st[1])], "history": hists[0]})
        if k % 5 == 4:
            out.append({"cfg": "c64", "sig": True, "state": [st[0], list(st[1])], "history": hists[0]})
    ctx.extra["abstract_states"] = len(reach) + 1
    # the slot count is an operand too: boundary values of l (a bit mask or a narrow counter over slots would break here)
    # (20 slots with signatures is the configuration the scheme is deployed with; the thorough tier takes EVERY l up to 40)
    if ctx.tier == "quick":
        ls = [(9, True), (20, True), (20, False), (33, True), (64, False), (65, True)]
    else:
        ls = [(l, l % 2 == 1) for l in list(range(4, 41)) + [63, 64, 65, 100, 255, 256, 257]] + [(20, True), (21, False), (32, True), (33, False)]
    for l, sig in ls:
        out.append({"sub": "large-l", "cfg": "asm", "sig": sig, "l": l})
    if ctx.tier == "thorough":
        # "start from non-initial states": EVERY history of length 1 and 2 over the l=2 alphabet is a source state of its own (no
        # deduplication by abstract state), so a key that reaches the same pattern along another route is explored from as well
        U2 = dict(l=2, names=["v1", "v2"])
        lists2 = wk.list_alphabet(2, U2["names"])
        n = 0
        for L1 in lists2:
            for k1 in ("keygen", "ndkeygen"):
                s1 = wk.model_step(None, [k1, L1], 2, vals)
                out.append({"cfg": "asm", "sig": False, "state": [s1[0], list(s1[1])], "history": [[k1, L1]], "l": 2, "nodedup": 1})
                n += 1
                if k1 == "ndkeygen" and L1["omit"]:
                    continue
                for L2 in lists2:
                    for k2 in ("qualify", "ndqualify"):
                        s2 = wk.model_step(s1, [k2, L2], 2, vals)
                        if s2 is None or not wk.free_slots(s2[1]):
                            continue      # nothing left to delegate: successors are covered from the deduplicated state
                        out.append({"cfg": "asm", "sig": False, "state": [s2[0], list(s2[1])], "history": [[k1, L1], [k2, L2]], "l": 2, "nodedup": 2})
                        n += 1
        ctx.extra["nodedup_sources"] = n
    return out


def large_l_histories(l):
    """a handful of delegation histories that touch the lowest, the highest and the word-boundary slots of a large parameter set"""
    hi = [i for i in (l - 1, l - 2, 31, 32, 33, 63, 64, 65, 7, 8) if 0 <= i < l]
    top, top2 = l - 1, l - 2
    L1 = {"e": sorted([[0, "v1"], [top, "v2"]]), "omit": False}
    L2 = {"e": sorted([[0, "v1"], [top2, wk.HID], [top, "v2"]]), "omit": False}
    L3 = {"e": sorted([[0, "v1"], [top2, "v1"], [top, "v2"]]), "omit": False}
    L4 = {"e": sorted([[i, "v1"] for i in sorted(set(hi))]), "omit": False}
    L5 = {"e": sorted([[0, "v1"], [top, "v2"]]), "omit": True}
    return [
        [["keygen", L1]], [["keygen", L1], ["qualify", L3]], [["keygen", L1], ["ndqualify", L2]], [["ndkeygen", L4]], [["keygen", L4]],
        [["keygen", L1], ["qualify", L1], ["resample", True]], [["keygen", L1], ["ndqualify", L5]], [["keygen", {"e": [], "omit": False}], ["qualify", L4]],
        [["keygen", L1], ["adjust", L1, L3]], [["keygen", L1], ["adjust", L3, L2]], [["keygen", {"e": [], "omit": False}], ["adjust", L4, L1]],
    ]


def eval_large_l(case):
    W = world(case["cfg"], case["l"], case["sig"], case["seed"])
    hist = case["history"]
    key, state = W.replay(hist[:-1])
    op = hist[-1]
    nxt = wk.model_step(state, op, W.l, W.vals)
    if nxt is None:
        return ["MODEL: history not permitted: %s" % (op,)]
    op2 = list(op)
    if op[0] == "resample":
        op2 = ["resample", op[1], state[1]]
    new = W.apply(key, op2)
    return W.invariant(new, nxt[1])


def run_shard(ctx, shard):
    if shard.get("sub") == "large-l":
        for h in large_l_histories(shard["l"]):
            case = {"sub": "large-l", "cfg": shard["cfg"], "l": shard["l"], "sig": shard["sig"], "seed": ctx.seed, "history": h}
            msgs = eval_large_l(case)
            ctx.ok(True, "large-l")
            ctx.extra["transitions"] += 1
            if msgs:
                ctx.fail(case, "l=%d, history %s: %s" % (shard["l"], [o[0] for o in h], "; ".join(msgs[:3])), sig="large-l:" + h[-1][0])
        return
    U = universe(ctx)
    if "l" in shard:
        U = dict(U, l=shard["l"])
    vals = wk.values(ctx.seed)
    state = None if shard["state"] is None else (shard["state"][0], tuple(shard["state"][1]))
    if state is not None:
        # the source state itself must satisfy the invariant; if it does not, the transition that produced it (enumerated from
        # its own source) carries the report, and this witness is not used as a starting point
        W = world(shard["cfg"], U["l"], shard["sig"], ctx.seed)
        key, st = W.replay(shard["history"])
        if W.invariant(key, st[1]):
            ctx.ok(False, "source-state-malformed(skipped)")
            ctx.notes.append("witness history %s yields a malformed key; its last transition reports it" % shard["history"])
            return
    for op in transitions(state, U, vals, ctx.tier if "nodedup" not in shard else "quick"):
        if (shard.get("witness", 0) > 0 or shard.get("nodedup")) and op[0] == "adjust":
            continue
        case = {"cfg": shard["cfg"], "l": U["l"], "sig": shard["sig"], "seed": ctx.seed, "history": shard["history"], "op": op}
        msgs = eval_case(case)
        nontriv = op[0] == "resample" or any(L["e"] for L in op[1:] if isinstance(L, dict))
        ctx.ok(nontriv, classify(op) if "nodedup" not in shard else "nodedup-depth%d:%s" % (shard["nodedup"], op[0]))
        ctx.extra["transitions"] += 1
        ctx.sample({"from": "master" if state is None else state[0] + wk.pat_str(state[1]), "op": op}, limit=1)
        if msgs:
            ctx.fail(case, "from %s via %s: %s" % ("master" if state is None else state[0] + wk.pat_str(state[1]), op, "; ".join(msgs[:3])), sig=classify(op))
        if ctx.out_of_time():
            return


def replay(ctx, case):
    if case.get("sub") == "large-l":
        return eval_large_l(case)
    return eval_case(case)


def finish(merged, cov):
    for need in ("keygen:plain", "keygen:hidden-entry", "ndkeygen:hidden-entry", "qualify:hidden-entry", "ndqualify:hidden-entry", "resample", "adjust:plain",
                 "qualify:plain+omit-all"):
        if not merged.outcomes.get(need):
            return "transition class %s never exercised" % need
    cov["states"] = 2 * merged.extra.get("abstract_states", 1)
    cov["transitions"] = merged.evaluations
    cov["traces_validated_against_impl"] = merged.evaluations
    return None
