"""C01 - the pairing is the BLS12-381 optimal-ate pairing (engine A)."""
import itertools

from vlib import alpha, build, ffi, ref

PROPERTY = "C01"
LEVEL = "model_checking"
RULE = ("bounded-exhaustive: all pairs (a,b) of the scalar alphabet {0,1,2,3,r-1,r-2,(r+-1)/2,r,r+1,2^255,2^256-1,fillers}^2, "
        "P=[a]G1, Q=[b]G2 built by the Python model, fed affine and through from_projective of every non-normalised "
        "representative z, through {C pairing, pairing<G2Affine>, pairing<G2Prepared>, miller_loop+final_exponentiation, "
        "pairing_product of one pair} on 3 back ends; expected bytes = (textbook optimal-ate pairing of the generators)^(ab mod r) "
        "in the Python quotient-ring model; final_exponentiation on arbitrary Fq12 inputs vs f^(3(q^12-1)/r). "
        "distinct by construction; non-trivial = ab != 0 mod r")
ASSUMPTIONS = ["vlib/ref.py (textbook Miller loop on the untwisted point + one big exponentiation) is the ground truth",
               "every element of G1 x G2 is ([a]G1,[b]G2): special coordinates that are not special exponents are not enumerated"]
CONFIGS = ["asm", "c64", "c32"]
ROUTES = ["c_api", "affine", "prepared", "miller_fe", "product1", "prepared_c"]


def scalar_alphabet(seed, tier):
    base = [0, 1, 2, 3, ref.r - 1, ref.r - 2]
    if tier == "thorough":
        base += [(ref.r + 1) // 2, (ref.r - 1) // 2, ref.r, ref.r + 1, 2**255, 2**256 - 1, 4, ref.X_ABS, ref.r - ref.X_ABS]
        base += [alpha.filler(seed, "c01", i, 256) for i in range(5)]
    else:
        base += [ref.r, 2**256 - 1, alpha.filler(seed, "c01", 0, 256)]
    return alpha.dedup(base)


_PTS = {}


def pt(g, k):
    key = (g, k % ref.r)
    if key not in _PTS:
        _PTS[key] = ref.pt_mul(ref.G1_GEN if g == 1 else ref.G2_GEN, k % ref.r, g)
    return _PTS[key]


def lib_pairing(L, route, Pn, Qn):
    """Pn, Qn: native affine buffers (bytes)."""
    if route == "c_api":
        return L.out("embedded_pairing_bls12_381_pairing", 576, Pn, Qn)
    if route == "affine":
        return L.out("vk_pairing_affine", 576, Pn, Qn)
    if route in ("prepared", "prepared_c"):
        prep = L.buf(L.size["g2prepared"], b"\xCD" * L.size["g2prepared"])
        if route == "prepared":
            L.call("vk_g2prepared_prepare", prep, Qn)
            return L.out("vk_pairing_prepared", 576, Pn, prep)
        L.call("embedded_pairing_bls12_381_g2prepared_prepare", prep, Qn)
        return L.out("embedded_pairing_bls12_381_prepared_pairing", 576, Pn, prep)
    if route == "miller_fe":
        ml = L.out("vk_miller_loop_affine", 576, Pn, Qn)
        return L.out("vk_final_exponentiation", 576, ml)
    if route == "product1":
        pb = L.buf(len(Pn), Pn)
        qb = L.buf(len(Qn), Qn)
        pair = L.buf(L.size["affinepair"])
        L.call("vk_affinepair_init", pair, pb, qb, 0xFF)
        return L.out("vk_pairing_product", 576, pair, ffi.sz(1), None, ffi.sz(0))
    raise ValueError(route)


def eval_case(case):
    L = ffi.lib(case["cfg"])
    sub = case["sub"]
    msgs = []
    if sub == "generator":
        e = ref.gen_pairing()
        got = L.unf12(L.const("generator_pairing", 576))
        if got != e:
            msgs.append("exported generator_pairing differs from the textbook pairing of the generators")
        import ctypes
        p = ctypes.c_void_p.in_dll(L.so, "embedded_pairing_bls12_381_gt_generator")
        raw = ctypes.string_at(p.value, 576)
        if L.unf12(raw) != e:
            msgs.append("C gt_generator differs from the textbook pairing of the generators")
        if L.unaff(L.const("g1affine_generator", L.size["g1affine"]), 1) != ref.G1_GEN or L.unaff(L.const("g2affine_generator", L.size["g2affine"]), 2) != ref.G2_GEN:
            msgs.append("published generators differ from the standard BLS12-381 generators")
        if int.from_bytes(L.const("g1_cofactor", 16), "little") != ref.G1_COFACTOR or int.from_bytes(L.const("g2_cofactor", 64), "little") != ref.G2_COFACTOR:
            msgs.append("cofactor constants differ")
        if int.from_bytes(L.const("bls_x", 8), "little") != ref.X_ABS:
            msgs.append("bls_x differs")
        return msgs
    if sub == "direct":
        a, b = int(case["a"], 16), int(case["b"], 16)
        P, Q = pt(1, a), pt(2, b)
        exp = ref.pairing(P, Q)
        got = L.unf12(lib_pairing(L, "affine", L.aff(P, 1), L.aff(Q, 2)))
        if got != exp:
            msgs.append("pairing([%x]G1,[%x]G2) differs from the directly evaluated textbook pairing" % (a, b))
        if exp != ref.f12_pow(ref.gen_pairing(), a * b % ref.r):
            msgs.append("MODEL INCONSISTENT: direct pairing vs e(G1,G2)^(ab)")
        return msgs
    if sub == "finalexp":
        f = (tuple((int(a, 16), int(b, 16)) for a, b in case["f"][0]), tuple((int(a, 16), int(b, 16)) for a, b in case["f"][1]))
        exp = ref.final_exponentiation(f)
        out = L.out("vk_final_exponentiation", 576, L.f12(f))
        if L.unf12(out) != exp or not L.canonical_ext(out, 12):
            msgs.append("final_exponentiation(f) != f^(3(q^12-1)/r)")
        # aliased output
        bf = L.buf(576, L.f12(f))
        L.call("vk_final_exponentiation", bf, bf)
        if bf.raw != out:
            msgs.append("final_exponentiation(result = input) differs")
        return msgs
    # sub == "pair"
    a, b = int(case["a"], 16), int(case["b"], 16)
    P, Q = pt(1, a), pt(2, b)
    exp = ref.f12_pow(ref.gen_pairing(), a * b % ref.r)
    expb = L.f12(exp)
    route = case["route"]
    zp, zq = case.get("zp"), case.get("zq")
    Pn = L.aff(P, 1)
    Qn = L.aff(Q, 2)
    if zp is not None:
        z = int(zp, 16)
        Pn = L.out("embedded_pairing_bls12_381_g1affine_from_projective", L.size["g1affine"], L.proj(P, 1, z if P is not None else None))
        if L.unaff(Pn, 1) != P:
            msgs.append("g1affine_from_projective(z=%x) returned another point" % z)
    if zq is not None:
        z = (int(zq[0], 16), int(zq[1], 16))
        Qn = L.out("embedded_pairing_bls12_381_g2affine_from_projective", L.size["g2affine"], L.proj(Q, 2, z if Q is not None else None))
        if L.unaff(Qn, 2) != Q:
            msgs.append("g2affine_from_projective returned another point")
    got = lib_pairing(L, route, Pn, Qn)
    if got != expb:
        v = L.unf12(got)
        kind = "non-canonical bytes" if v == exp else "value"
        msgs.append("%s e([%x]G1,[%x]G2) via %s differs from e(G1,G2)^(ab) (%s)" % (case["cfg"], a, b, route, kind))
    return msgs


def shards(ctx):
    for c in CONFIGS:
        build.build(c)
    A = scalar_alphabet(ctx.seed, ctx.tier)
    out = [{"sub": "generator", "cfg": c} for c in CONFIGS]
    pairs = list(itertools.product(A, A))
    n = 8 if ctx.tier == "quick" else 16
    for cfg in CONFIGS:
        for k in range(n):
            out.append({"sub": "pairs", "cfg": cfg, "part": k, "parts": n})
    direct = [(1, 1), (2, 3), (ref.r - 1, 5), (alpha.filler(ctx.seed, "c01d", 0, 255) % ref.r, alpha.filler(ctx.seed, "c01d", 1, 255) % ref.r)]
    for i, (a, b) in enumerate(direct if ctx.tier == "thorough" else direct[:2]):
        out.append({"sub": "direct", "cfg": CONFIGS[i % 3], "a": "%x" % a, "b": "%x" % b})
    nfe = 4 if ctx.tier == "quick" else 12
    F = fe_inputs(ctx.seed)[:nfe]
    for i, f in enumerate(F):
        out.append({"sub": "finalexp", "cfg": CONFIGS[i % 3], "f": [[["%x" % c[0], "%x" % c[1]] for c in h] for h in f]})
    return out


def fe_inputs(seed):
    al = alpha.fq12_alphabet(seed, limit=16)
    picks = [al[-1], al[-2]]                       # fillers in all components
    picks += [ref.F12_ONE, ref.f12_from_fq(2), ref.f12_from_f2((3, 5)), (ref.F6_ZERO, ref.F6_ONE)]      # subfields, w
    picks += [a for a in al if a != ref.F12_ZERO][3:9]
    return [p for p in alpha.dedup(picks) if p != ref.F12_ZERO]


def run_shard(ctx, shard):
    sub = shard["sub"]
    if sub in ("generator", "direct", "finalexp"):
        msgs = eval_case(shard)
        ctx.ok(True, sub)
        ctx.sample(shard if sub != "finalexp" else {"sub": "finalexp", "cfg": shard["cfg"]}, limit=1)
        if msgs:
            ctx.fail(shard, "; ".join(msgs), sig=sub)
        return
    cfg = shard["cfg"]
    A = scalar_alphabet(ctx.seed, ctx.tier)
    pairs = list(itertools.product(A, A))[shard["part"]::shard["parts"]]
    zs1 = alpha.z_values(1, ctx.seed, ctx.tier)[1:]
    zs2 = alpha.z_values(2, ctx.seed, ctx.tier)[1:]
    for a, b in pairs:
        variants = [(None, None)]
        variants += [("%x" % z, None) for z in zs1[:2 if ctx.tier == "quick" else 3]]
        variants += [(None, ["%x" % z[0], "%x" % z[1]]) for z in zs2[:2 if ctx.tier == "quick" else 4]]
        variants.append(("%x" % zs1[-1], ["%x" % zs2[-1][0], "%x" % zs2[-1][1]]))
        for vi, (zp, zq) in enumerate(variants):
            routes = ROUTES if vi == 0 else ["c_api", "prepared"]
            for route in routes:
                case = {"sub": "pair", "cfg": cfg, "a": "%x" % a, "b": "%x" % b, "route": route}
                if zp is not None:
                    case["zp"] = zp
                if zq is not None:
                    case["zq"] = zq
                msgs = eval_case(case)
                nontriv = (a * b) % ref.r != 0
                ctx.ok(nontriv, "pair:" + route + (":identity" if not nontriv else ""))
                ctx.sample(case, limit=1)
                if msgs:
                    ctx.fail(case, "; ".join(msgs), sig="pair:" + route)
        if ctx.out_of_time():
            return


def replay(ctx, case):
    return eval_case(case)


def finish(merged, cov):
    for need in ("generator", "direct", "finalexp", "pair:c_api", "pair:prepared", "pair:c_api:identity"):
        if not merged.outcomes.get(need):
            return "outcome class %s never exercised" % need
    cov["traces_validated_against_impl"] = merged.evaluations
    cov["states"] = merged.evaluations
    cov["transitions"] = merged.evaluations
    return None
