"""C15 - scheme objects survive marshalling unchanged and length accounting is exact (engine B objects + A corruptions)."""
import ctypes

from vlib import alpha, build, ffi, ref, wk
from checks import c11

PROPERTY = "C15"
LEVEL = "model_checking"
RULE = ("every WKD-IBE object reached through the API (params with l=0..3 and signatures on/off, master key, secret keys of every reachable abstract state incl. "
        "0..l free slots and both kinds, ciphertexts, signatures) and every LQ-IBE object (params, identity, master key, secret key, ciphertext) x {compressed, "
        "uncompressed}: reported length == computed length == bytes actually written (exact-size buffer with canary); length recovered from the buffer == slot "
        "count and -1 for every length off by 1..slot-1; unmarshal (checked and unchecked, destination arrays allocated as the Go binding does) reproduces an "
        "equal object (re-marshals to the same bytes, group elements equal, indices exact, recomputed pairing equal); corruptions: EACH embedded group-element "
        "position x EACH invalid encoding of the menu (off curve, no y, outside subgroup, wrong compression flag, malformed identity, non-canonical coordinate) must "
        "make checked unmarshal return false; unmarshal HISTORIES into one re-used destination object (every sequence of length <= 3 over {valid A, valid B, B with "
        "each element invalid in turn, B one byte short} that ends with a valid buffer, Go-binding protocol with realloc semantics): the object must equal a fresh "
        "object that received the last accepted buffer, in both encodings. state = object; non-trivial = object with at least one array slot or a corruption")
ASSUMPTIONS = ["the wire layout used to locate element positions is the documented one in src/wkdibe/marshal.cpp / src/lqibe/marshal.cpp",
               "GT members are raw field bytes which the library does not validate"]
CAN = 0x5C


def sizes(comp):
    return (48 if comp else 96), (96 if comp else 192)


def bad_encodings(g, comp, seed):
    """[(bytes, why)] invalid encodings of a group element in this form"""
    n = 48 * g
    pts = alpha.subgroup_points(g, seed, "quick")
    P = pts[3][1]
    F = ref.FIELDS[g]
    out = []
    E = bytearray(ref.encode_point(P, g, comp))
    # wrong compression flag
    b = bytearray(E)
    b[0] ^= 0x80
    out.append((bytes(b), "wrong-compression-flag"))
    # outside the subgroup
    N = (alpha.small_order_points_g1()[1] if g == 1 else alpha.non_subgroup_points_g2()[0])
    out.append((ref.encode_point(N, g, comp), "outside-subgroup"))
    # malformed identity
    ident = bytearray(ref.encode_point(None, g, comp))
    b = bytearray(ident)
    b[-1] = 1
    out.append((bytes(b), "malformed-identity"))
    b = bytearray(ident)
    b[0] |= 0x20
    out.append((bytes(b), "malformed-identity"))
    if comp:
        x = 5 if g == 1 else (5, 1)
        while ref.point_from_x(x, g) is not None:
            x = (x + 1) if g == 1 else (x[0] + 1, x[1])
        b = bytearray(ref.coord_bytes(x, g))
        b[0] |= 0x80
        out.append((bytes(b), "x-without-y"))
    else:
        out.append((ref.coord_bytes(P[0], g) + ref.coord_bytes(F.add(P[1], F.one), g), "off-curve"))
        b = bytearray(E)
        b[0] |= 0x20
        out.append((bytes(b), "greater-flag-on-uncompressed"))
    # non-canonical coordinate: last 48-byte chunk + q (if it fits) or stray top bit
    chunks = [int.from_bytes(E[48 * i:48 * i + 48], "big") for i in range(len(E) // 48)]
    last = len(chunks) - 1
    if last > 0:
        c2 = list(chunks)
        c2[last] |= 1 << 383
        out.append((b"".join(c.to_bytes(48, "big") for c in c2), "non-canonical"))
    v0 = chunks[0] & ((1 << 381) - 1)
    if v0 + ref.q < (1 << 381):
        c2 = list(chunks)
        c2[0] = (chunks[0] & ~((1 << 381) - 1)) | (v0 + ref.q)
        out.append((b"".join(c.to_bytes(48, "big") for c in c2), "non-canonical"))
    return out


def layout(kind, comp, l=0, sig=False):
    """[(offset, group)] of the embedded group elements, and total length"""
    g1, g2 = sizes(comp)
    pos = []
    o = 0
    if kind == "wk_params":
        o = 1
        pos += [(o, 2), (o + g2, 2), (o + 2 * g2, 1), (o + 2 * g2 + g1, 1)]
        o += 2 * g2 + 2 * g1 + (0 if comp else 576)
        if sig:
            pos.append((o, 1))
            o += g1
        for i in range(l):
            pos.append((o, 1))
            o += g1
    elif kind == "wk_secretkey":
        o = 1
        pos += [(o, 1), (o + g1, 2)]
        o += g1 + g2
        if sig:
            pos.append((o, 1))
            o += g1
        for i in range(l):
            pos.append((o, 1))
            o += g1 + 4
    elif kind == "wk_ciphertext":
        pos += [(576, 2), (576 + g2, 1)]
        o = 576 + g2 + g1
    elif kind == "wk_signature":
        pos += [(0, 1), (g1, 2)]
        o = g1 + g2
    elif kind == "wk_masterkey":
        pos += [(0, 1)]
        o = g1
    elif kind == "lq_params":
        pos += [(0, 2), (g2, 2)]
        o = 2 * g2
    elif kind in ("lq_id", "lq_secretkey"):
        pos += [(0, 1)]
        o = g1
    elif kind == "lq_ciphertext":
        pos += [(0, 2)]
        o = g2
    elif kind == "lq_masterkey":
        o = 32
    return pos, o


class Objs:
    """marshal / unmarshal wrappers with the caller-side protocol"""

    def __init__(self, W):
        self.W, self.L, self.N = W, W.L, W.N

    def marshal(self, kind, buf_obj, comp, length):
        L = self.L
        out = ctypes.create_string_buffer(bytes([CAN]) * (length + 512), length + 512)      # room for a whole extra element of any kind behind the expected length
        fn = {"wk_params": "embedded_pairing_wkdibe_params_marshal", "wk_secretkey": "embedded_pairing_wkdibe_secretkey_marshal",
              "wk_ciphertext": "embedded_pairing_wkdibe_ciphertext_marshal", "wk_signature": "embedded_pairing_wkdibe_signature_marshal",
              "wk_masterkey": "embedded_pairing_wkdibe_masterkey_marshal", "lq_params": "embedded_pairing_lqibe_params_marshal",
              "lq_id": "embedded_pairing_lqibe_id_marshal", "lq_masterkey": "embedded_pairing_lqibe_masterkey_marshal",
              "lq_secretkey": "embedded_pairing_lqibe_secretkey_marshal", "lq_ciphertext": "embedded_pairing_lqibe_ciphertext_marshal"}[kind]
        L.call(fn, out, buf_obj, 1 if comp else 0)
        raw = out.raw
        return raw[:length], raw[length:] == bytes([CAN]) * 512

    def reported_length(self, kind, buf_obj, comp, l, sig):
        L = self.L
        c = 1 if comp else 0
        sz = ctypes.c_size_t
        if kind == "wk_params":
            f1, f2 = L.f("embedded_pairing_wkdibe_params_get_marshalled_length"), L.f("embedded_pairing_wkdibe_params_marshalled_length")
            return f1(buf_obj, c), f2(l, 1 if sig else 0, c)
        if kind == "wk_secretkey":
            f1, f2 = L.f("embedded_pairing_wkdibe_secretkey_get_marshalled_length"), L.f("embedded_pairing_wkdibe_secretkey_marshalled_length")
            return f1(buf_obj, c), f2(l, 1 if sig else 0, c)
        name = {"wk_ciphertext": "embedded_pairing_wkdibe_ciphertext_get_marshalled_length", "wk_signature": "embedded_pairing_wkdibe_signature_get_marshalled_length",
                "wk_masterkey": "embedded_pairing_wkdibe_masterkey_get_marshalled_length", "lq_params": "embedded_pairing_lqibe_params_get_marshalled_length",
                "lq_id": "embedded_pairing_lqibe_id_get_marshalled_length", "lq_masterkey": "embedded_pairing_lqibe_masterkey_get_marshalled_length",
                "lq_secretkey": "embedded_pairing_lqibe_secretkey_get_marshalled_length", "lq_ciphertext": "embedded_pairing_lqibe_ciphertext_get_marshalled_length"}[kind]
        v = L.f(name)(c)
        v2 = L.f("vk_wk_fixed_marshalled_length")(kind[3:].encode() if kind.startswith("wk_") else kind.encode(), c)
        return v, v2

    def unmarshal(self, kind, data, comp, checked):
        """returns (ok, object buffer(s), slot count or None)"""
        L, N = self.L, self.N
        c, ch = (1 if comp else 0), (1 if checked else 0)
        exact = ctypes.create_string_buffer(data, len(data))       # exact-size input block
        if kind == "wk_params":
            obj = wk.Params(N, 0)
            n = L.f("embedded_pairing_wkdibe_params_set_length")(obj.buf, exact, ffi.sz(len(data)), c)
            if n < 0:
                return False, None, n
            harr = ctypes.create_string_buffer(bytes([CAN]) * (N.sz["g1"] * (n + 2)), N.sz["g1"] * (n + 2))
            ctypes.memmove(ctypes.byref(obj.buf, N.off["wk_params.h"]), ctypes.addressof(harr).to_bytes(8, "little"), 8)
            obj.h = harr
            obj.l = n
            ok = L.f("embedded_pairing_wkdibe_params_unmarshal")(obj.buf, exact, c, ch) & 1
            if harr.raw[N.sz["g1"] * n:] != bytes([CAN]) * (N.sz["g1"] * 2):
                return "overrun", obj, n
            return bool(ok), obj, n
        if kind == "wk_secretkey":
            probe = wk.SecretKey(N, 0)
            n = L.f("embedded_pairing_wkdibe_secretkey_set_length")(probe.buf, exact, ffi.sz(len(data)), c)
            if n < 0:
                return False, None, n
            obj = wk.SecretKey(N, n)
            L.f("embedded_pairing_wkdibe_secretkey_set_length")(obj.buf, exact, ffi.sz(len(data)), c)
            ok = L.f("embedded_pairing_wkdibe_secretkey_unmarshal")(obj.buf, exact, c, ch) & 1
            if obj.overrun():
                return "overrun", obj, n
            return bool(ok), obj, n
        fn = {"wk_ciphertext": "embedded_pairing_wkdibe_ciphertext_unmarshal", "wk_signature": "embedded_pairing_wkdibe_signature_unmarshal",
              "wk_masterkey": "embedded_pairing_wkdibe_masterkey_unmarshal", "lq_params": "embedded_pairing_lqibe_params_unmarshal",
              "lq_id": "embedded_pairing_lqibe_id_unmarshal", "lq_masterkey": "embedded_pairing_lqibe_masterkey_unmarshal",
              "lq_secretkey": "embedded_pairing_lqibe_secretkey_unmarshal", "lq_ciphertext": "embedded_pairing_lqibe_ciphertext_unmarshal"}[kind]
        obj = L.buf(L.size[kind], b"\xCD" * L.size[kind])
        ok = L.f(fn)(obj, exact, c, ch) & 1
        return bool(ok), obj, None


class Reused:
    """ONE destination object that is unmarshalled into again and again, with the caller-side protocol of the Go binding (set_length on
    the same object, array re-sized to the reported count, old contents kept: realloc)"""

    def __init__(self, W, kind):
        self.W, self.L, self.N, self.kind = W, W.L, W.N, kind
        if kind == "wk_params":
            self.obj = wk.Params(self.N, 0)
            self.arr = b""
        elif kind == "wk_secretkey":
            self.obj = wk.SecretKey(self.N, 0)
            self.arr = b""
        else:
            self.buf = self.L.buf(self.L.size[kind], b"\xCD" * self.L.size[kind])

    def unmarshal(self, data, comp, checked):
        L, N, kind = self.L, self.N, self.kind
        c, ch = (1 if comp else 0), (1 if checked else 0)
        exact = ctypes.create_string_buffer(data, len(data))
        if kind in ("wk_params", "wk_secretkey"):
            what = kind[3:]
            n = L.f("embedded_pairing_wkdibe_%s_set_length" % what)(self.obj.buf, exact, ffi.sz(len(data)), c)
            if n < 0:
                return False
            esz = N.sz["g1"] if kind == "wk_params" else N.sz["wk_freeslot"]
            old = self.arr
            new = ctypes.create_string_buffer((old + bytes([CAN]) * (esz * n))[:esz * n] + bytes([CAN]) * (2 * esz), esz * (n + 2))   # realloc keeps the prefix
            field = "wk_params.h" if kind == "wk_params" else "wk_secretkey.b"
            ctypes.memmove(ctypes.byref(self.obj.buf, N.off[field]), ctypes.addressof(new).to_bytes(8, "little"), 8)
            self.keep = new
            ok = L.f("embedded_pairing_wkdibe_%s_unmarshal" % what)(self.obj.buf, exact, c, ch) & 1
            self.arr = new.raw[:esz * n]
            if new.raw[esz * n:] != bytes([CAN]) * (2 * esz):
                return "overrun"
            return bool(ok)
        fn = {"wk_ciphertext": "embedded_pairing_wkdibe_ciphertext_unmarshal", "wk_signature": "embedded_pairing_wkdibe_signature_unmarshal",
              "wk_masterkey": "embedded_pairing_wkdibe_masterkey_unmarshal"}[kind]
        return bool(L.f(fn)(self.buf, exact, c, ch) & 1)

    def object(self):
        return self.obj.buf if self.kind in ("wk_params", "wk_secretkey") else self.buf


def reuse_menu(W, W2, kind, history, comp, seed):
    """buffers that take part in the unmarshal histories: the valid object A, a valid object B of the same shape from another
    world, B with each element position invalid in turn, B one byte short"""
    O, O2 = Objs(W), Objs(W2)
    objsA, objsB = build_objects(W, {"history": history}), build_objects(W2, {"history": history})
    name = {"wk_params": "params", "wk_secretkey": "secretkey", "wk_ciphertext": "ciphertext", "wk_signature": "signature", "wk_masterkey": "masterkey"}[kind]
    _, objA, l, sig = objsA[name]
    _, objB, l2, sig2 = objsB[name]
    pos, total = layout(kind, comp, l, sig)
    A, _ = O.marshal(kind, objA, comp, total)
    B, _ = O2.marshal(kind, objB, comp, total)
    menu = [("A", A, True), ("B", B, True)]
    for off, g in pos:
        bad, why = bad_encodings(g, comp, seed)[1]       # a curve point outside the subgroup: rejected only after it was parsed
        menu.append(("B!%d" % off, B[:off] + bad + B[off + len(bad):], False))
    if kind in ("wk_params", "wk_secretkey"):
        menu.append(("B-1", B[:-1], False))
        # N: the same object from a system with the OTHER signature setting (another marshalled length; the flag of the re-used object must follow
        # the buffer in both directions - seeded C15-r7a kept a stale 'signatures' flag and signature element)
        W3 = c11.world(W.cfg, l, not sig, seed + 104729)
        if W3 is not None:
            objsN = build_objects(W3, {"history": history})
            _, objN, l3, sig3 = objsN[name]
            _, total3 = layout(kind, comp, l3, sig3)
            Nb, _ = Objs(W3).marshal(kind, objN, comp, total3)
            menu.append(("N", Nb, True))
    return menu, total, {"A": objA, "B": objB}


def eval_reuse(case):
    """explicit-state exploration over unmarshal histories into one object: after every history, the object must behave exactly like
    a fresh object that received the last accepted buffer (marshals back to those bytes in BOTH encodings - the uncompressed form of
    the parameters contains the pairing value, which the compressed form makes the library recompute)"""
    import itertools
    W = c11.world(case["cfg"], case["l"], case["sig"], case["seed"])
    W2 = c11.world(case["cfg"], case["l"], case["sig"], case["seed"] + 7919)
    kind, comp, checked = case["kind"], case["comp"], case["checked"]
    menu, total, _ = reuse_menu(W, W2, kind, case.get("history"), comp, case["seed"])
    by = {m[0]: m for m in menu}
    msgs = []
    seqs = case.get("seqs")
    if seqs is None:
        names = [m[0] for m in menu]
        seqs = [list(t) for n in (1, 2, 3) for t in itertools.product(names, repeat=n) if by[t[-1]][2]]      # histories that end with a valid buffer
    O = Objs(W)
    for seq in seqs:
        R = Reused(W, kind)
        last_ok = None
        for nm in seq:
            _, data, valid = by[nm]
            ok = R.unmarshal(data, comp, checked or not valid)     # invalid buffers are only ever offered to the validating parser
            if ok == "overrun":
                msgs.append("history %s: wrote beyond the destination array" % seq)
                break
            if ok != valid:
                msgs.append("history %s: unmarshal(%s) returned %s" % (seq, nm, ok))
                break
            if ok:
                last_ok = nm
        else:
            want = by[last_ok][1]
            again, clean = O.marshal(kind, R.object(), comp, len(want))
            if again != want or not clean:
                msgs.append("history %s: the object does not marshal back to the last accepted buffer%s" % (seq, "" if clean else " (writes beyond its length)"))
            # the other encoding must equal what a fresh object gives for the same buffer
            F = Reused(W, kind)
            F.unmarshal(want, comp, checked)
            l_, sig_ = (case["l"], case["sig"]) if kind == "wk_params" else (None, None)
            if kind == "wk_params":
                _, tot2 = layout(kind, not comp, case["l"], case["sig"])
            elif kind == "wk_secretkey":
                key = F.obj
                _, tot2 = layout(kind, not comp, key.l, key.signatures)
            else:
                _, tot2 = layout(kind, not comp, 0, False)
            o1, c1 = O.marshal(kind, R.object(), not comp, tot2)
            o2, c2 = O.marshal(kind, F.object(), not comp, tot2)
            if o1 != o2 or c1 != c2:
                msgs.append("history %s: the re-used object differs from a fresh object that received the same last buffer (other encoding differs)" % seq)
        if len(msgs) > 4:
            break
    return msgs, len(seqs)


def build_objects(W, case):
    """returns {name: (kind, object buffer/struct, l, sig)} for one world + key history"""
    L, N = W.L, W.N
    objs = {}
    objs["params"] = ("wk_params", W.params.buf, W.l, W.sig)
    objs["masterkey"] = ("wk_masterkey", W.msk, 0, False)
    if case.get("history") is not None:
        key, state = W.replay(case["history"])
        objs["secretkey"] = ("wk_secretkey", key.buf, key.l, key.signatures)
        objs["_key"] = key
        pat = state[1]
        ct = W.encrypt(W.messages()[1], wk.pattern_list(pat))
        objs["ciphertext"] = ("wk_ciphertext", ct, 0, False)
        if W.sig:
            from checks import c13
            sig = c13.sign(W, key, wk.pattern_list(pat), 12345, "direct")
            objs["signature"] = ("wk_signature", sig, 0, False)
    return objs


def lq_objects(L, seed):
    rng = ffi.CounterRng("lq|%d" % seed)
    params = L.buf(L.size["lq_params"])
    msk = L.buf(L.size["lq_masterkey"])
    L.call("embedded_pairing_lqibe_setup", params, msk, rng.cb)
    idh = bytes(alpha.filler(seed, "lqid", 0, 384).to_bytes(48, "big"))
    ident = L.buf(L.size["lq_id"])
    L.call("embedded_pairing_lqibe_compute_id_from_hash", ident, idh)
    sk = L.buf(L.size["lq_secretkey"])
    L.call("embedded_pairing_lqibe_keygen", sk, msk, ident)
    ct = L.buf(L.size["lq_ciphertext"])
    sym = L.buf(32)
    hf = ffi.HASH_T(lambda out, outlen, inp, inlen: None)
    L.call("embedded_pairing_lqibe_encrypt", ct, sym, ffi.sz(32), params, ident, hf, rng.cb)
    return {"lq_params": ("lq_params", params, 0, False), "lq_id": ("lq_id", ident, 0, False), "lq_masterkey": ("lq_masterkey", msk, 0, False),
            "lq_secretkey": ("lq_secretkey", sk, 0, False), "lq_ciphertext": ("lq_ciphertext", ct, 0, False)}


def check_object(W, name, kind, obj, l, sig, seed, do_corrupt):
    L = W.L
    O = Objs(W)
    msgs = []
    stats = {"corruptions": 0}
    for comp in (True, False):
        pos, total = layout(kind, comp, l, sig)
        r1, r2 = O.reported_length(kind, obj, comp, l, sig)
        if not (r1 == r2 == total):
            msgs.append("%s comp=%s: lengths disagree: get=%d formula=%d layout=%d" % (name, comp, r1, r2, total))
            continue
        data, canary_ok = O.marshal(kind, obj, comp, total)
        if not canary_ok:
            msgs.append("%s comp=%s: marshal wrote more than the reported %d bytes" % (name, comp, total))
        if CAN in (data[-1],) and data[-4:] == bytes([CAN]) * 4:
            msgs.append("%s comp=%s: marshal wrote fewer bytes than reported" % (name, comp))
        if kind in ("wk_params", "wk_secretkey"):
            fn = "embedded_pairing_wkdibe_%s_unmarshalled_length" % kind[3:]
            got = L.f(fn)(data, ffi.sz(total), 1 if comp else 0)
            if got != l:
                msgs.append("%s comp=%s: unmarshalled_length = %d, object has %d slots" % (name, comp, got, l))
            slot = (48 if comp else 96) + (4 if kind == "wk_secretkey" else 0)
            for d in list(range(1, slot)):
                for ln in (total + d, total - d):
                    if ln >= 1:
                        padded = (data + b"\0" * d)[:ln]
                        got = L.f(fn)(padded, ffi.sz(ln), 1 if comp else 0)
                        if got != -1:
                            msgs.append("%s comp=%s: unmarshalled_length(len %+d) = %d, expected -1" % (name, comp, ln - total, got))
                            break
        for checked in (True, False):
            ok, back, n = O.unmarshal(kind, data, comp, checked)
            if ok is not True:
                msgs.append("%s comp=%s checked=%s: unmarshal of the library's own bytes -> %s" % (name, comp, checked, ok))
                continue
            bobj = back.buf if hasattr(back, "buf") else back
            again, _ = O.marshal(kind, bobj, comp, total)
            if again != data:
                msgs.append("%s comp=%s checked=%s: marshal(unmarshal(bytes)) != bytes" % (name, comp, checked))
            if kind == "wk_params" and comp:
                o = W.N.off["wk_params.pairing"]
                if bobj.raw[o:o + 576] != obj.raw[o:o + 576]:
                    msgs.append("params compressed: recomputed pairing differs from the original")
            # the unmarshalled OBJECT equals the original, element by element (a marshal that writes a wrong but valid element would
            # still re-marshal to the same bytes)
            N = W.N

            def same(field_kind, a, b):
                return L.call("embedded_pairing_bls12_381_%s_equal" % field_kind, a, b) & 1
            if kind == "wk_params":
                for fld, g in (("g", "g2"), ("g1", "g2"), ("g2", "g1"), ("g3", "g1"), ("hsig", "g1")):
                    o = N.off["wk_params." + fld]
                    if not same(g, bobj.raw[o:o + N.sz[g]], obj.raw[o:o + N.sz[g]]):
                        msgs.append("%s comp=%s checked=%s: %s of the unmarshalled parameters differs from the original" % (name, comp, checked, fld))
                s1 = N.sz["g1"]
                for i in range(l):
                    if not same("g1", back.h.raw[s1 * i:s1 * i + s1], W.params.hi(i)):
                        msgs.append("%s comp=%s checked=%s: h[%d] of the unmarshalled parameters differs from the original" % (name, comp, checked, i))
                        break
            elif kind == "wk_secretkey":
                key = W._curkey
                for fld, g in (("a0", "g1"), ("a1", "g2"), ("bsig", "g1")):
                    if not same(g, back.field(fld, N.sz[g]), key.field(fld, N.sz[g])):
                        msgs.append("secretkey comp=%s checked=%s: %s differs from the original" % (comp, checked, fld))
                for i in range(min(back.l, key.l)):
                    if not same("g1", back.slot(i)[1], key.slot(i)[1]):
                        msgs.append("secretkey comp=%s checked=%s: hexp of free slot %d differs from the original" % (comp, checked, i))
                        break
            elif kind in ("wk_ciphertext", "wk_signature", "wk_masterkey"):
                for fld, g in {"wk_ciphertext": (("b", "g2"), ("c", "g1")), "wk_signature": (("a0", "g1"), ("a1", "g2")), "wk_masterkey": (("g2alpha", "g1"),)}[kind]:
                    o = N.off[kind + "." + fld]
                    if not same(g, bobj.raw[o:o + N.sz[g]], obj.raw[o:o + N.sz[g]]):
                        msgs.append("%s comp=%s checked=%s: %s differs from the original" % (name, comp, checked, fld))
            if kind == "wk_secretkey":
                key = W._curkey
                if back.idxs() != key.idxs():
                    msgs.append("secretkey: free-slot indices changed: %s vs %s" % (back.idxs(), key.idxs()))
        if do_corrupt == "mass" and kind in ("wk_params", "wk_secretkey"):
            # MANY invalid elements at once: the last N slot elements replaced by one invalid encoding, N = 2, 255, 256, 257, all - a
            # validation that counts failures (in a narrow counter), or gives up after some, accepts at one of these
            g1pos = [off for (off, gg) in pos if gg == 1]
            bad, why = bad_encodings(1, comp, seed)[0]
            for N in (2, 255, 256, 257, 512, len(g1pos) - 3):
                if N > len(g1pos) - 3 or N <= 0:
                    continue
                d2 = bytearray(data)
                for off in g1pos[-N:]:
                    d2[off:off + len(bad)] = bad
                ok, _, _ = O.unmarshal(kind, bytes(d2), comp, True)
                stats["corruptions"] += 1
                if ok is not False:
                    msgs.append("%s comp=%s: checked unmarshal accepts a buffer whose last %d slot elements are all invalid (%s) -> %s" % (name, comp, N, why, ok))
        if do_corrupt is True:
            # correlated corruption: TWO elements of the same group moved out of the subgroup by opposite torsion components (P + T and
            # Q - T with T of small order): each is invalid on its own, their sum is not - a validation that is applied to an aggregate
            # (a batched subgroup check) accepts the pair
            for g in (1, 2):
                same = [off for (off, gg) in pos if gg == g]
                T = (alpha.small_order_points_g1()[0] if g == 1 else alpha.non_subgroup_points_g2()[0])
                if g == 2:
                    T = ref.pt_mul(T, ref.r, 2)          # the torsion component of a point outside G2 (kills the order-r part)
                    if T is None:
                        continue
                elen = (48 if comp else 96) * g
                for a_off, b_off in zip(same, same[1:]):
                    okA, PA = ref.decode_model(data[a_off:a_off + elen], g, comp)
                    okB, PB = ref.decode_model(data[b_off:b_off + elen], g, comp)
                    if not (okA and okB) or PA is None or PB is None:
                        continue
                    A2, B2 = ref.pt_add(PA, T, g), ref.pt_add(PB, ref.pt_neg(T, g), g)
                    if A2 is None or B2 is None or ref.in_subgroup(A2, g) or ref.in_subgroup(B2, g):
                        continue
                    d2 = bytearray(data)
                    d2[a_off:a_off + elen] = ref.encode_point(A2, g, comp)
                    d2[b_off:b_off + elen] = ref.encode_point(B2, g, comp)
                    ok, _, _ = O.unmarshal(kind, bytes(d2), comp, True)
                    stats["corruptions"] += 1
                    if ok is not False:
                        msgs.append("%s comp=%s: checked unmarshal accepts a buffer whose elements at offsets %d and %d are both outside the subgroup (their torsion components cancel) -> %s"
                                    % (name, comp, a_off, b_off, ok))
            for (off, g) in pos:
                for bad, why in bad_encodings(g, comp, seed):
                    d2 = data[:off] + bad + data[off + len(bad):]
                    ok, _, _ = O.unmarshal(kind, d2, comp, True)
                    stats["corruptions"] += 1
                    if ok is not False:
                        msgs.append("%s comp=%s: checked unmarshal accepts a buffer whose element at offset %d is invalid (%s) -> %s" % (name, comp, off, why, ok))
    return msgs, stats


def eval_case(case):
    if case["sub"] == "reuse":
        return eval_reuse(case)[0]
    if case["sub"] == "lq":
        L = ffi.lib(case["cfg"])
        W = c11.world(case["cfg"], 0, False, case["seed"])
        objs = lq_objects(L, case["seed"])
        msgs = []
        for name, (kind, obj, l, sig) in objs.items():
            if case.get("only") and name != case["only"]:
                continue
            m, st = check_object(W, name, kind, obj, l, sig, case["seed"], True)
            msgs += m
        return msgs
    W = c11.world(case["cfg"], case["l"], case["sig"], case["seed"])
    objs = build_objects(W, case)
    W._curkey = objs.pop("_key", None)
    msgs = []
    for name, (kind, obj, l, sig) in objs.items():
        if case.get("only") and name != case["only"]:
            continue
        if name in ("params", "masterkey") and case.get("history") and not case.get("with_params"):
            continue
        m, st = check_object(W, name, kind, obj, l, sig, case["seed"], case.get("corrupt", False))
        msgs += m
    return msgs


def shards(ctx):
    for c in ("asm", "c64", "c32", "o0"):
        build.build(c)
    out = [{"sub": "lq", "cfg": "o0"}, {"sub": "params", "cfg": "o0", "l": 2, "sig": True}]
    # params / master key for every l and flag, on every back end (struct layouts differ between word sizes)
    for cfg in ("asm", "c64", "c32"):
        for l in (0, 1, 2, 3):
            for sig in (False, True):
                out.append({"sub": "params", "cfg": cfg, "l": l, "sig": sig})
        # the slot count as an operand: boundary values (a batch size, a narrow counter or a bit mask over slots breaks at one of them)
        for l in ((8, 16, 17, 33, 65) if ctx.tier == "quick" else (8, 9, 15, 16, 17, 31, 32, 33, 63, 64, 65, 100, 255, 256, 257)):
            if cfg == "asm" or l in (17, 33):
                out.append({"sub": "params", "cfg": cfg, "l": l, "sig": l % 2 == 1, "corrupt": False})
        out.append({"sub": "lq", "cfg": cfg})
    for l in (259, 300, 515):
        out.append({"sub": "params", "cfg": "asm", "l": l, "sig": l % 2 == 1, "corrupt": "mass"})
    # secret keys with MANY free slots (all l slots free after keygen of the empty list; l - 2 after fixing the first and the last): the
    # slot count of a key is an operand of marshal / length accounting / unmarshal just like the parameters' - every l up to 70 in the
    # thorough tier, 20 (the deployed configuration) with and without signatures, and keys whose slot area crosses 64 KiB (a 16-bit
    # offset or length breaks there: 657 slots uncompressed, 1262 compressed)
    if ctx.tier == "quick":
        big = [(8, True), (17, False), (20, True), (20, False), (21, True), (33, True), (65, False), (700, True), (1300, False)]
    else:
        big = [(l, l % 2 == 0) for l in range(4, 71)] + [(20, False), (21, True), (100, True), (255, False), (256, True), (257, False), (656, True), (657, False), (700, True),
                                                        (1261, False), (1262, True), (1300, False), (1400, True)]
    vals0 = wk.values(ctx.seed)
    for l, sig in big:
        for ents in ([], [[0, "v1"], [l - 1, "v2"]]):
            op = ["keygen", {"e": ents, "omit": False}]
            st = wk.model_step(None, op, l, vals0)
            out.append({"sub": "key", "cfg": "asm", "l": l, "sig": sig, "history": [op], "state": [st[0], list(st[1])], "corrupt": False, "big": True})
    U = c11.universe(ctx)
    vals = wk.values(ctx.seed)
    reach = wk.reachable(U["l"], U["names"], vals, witnesses=1)
    for sig in (False, True):
        for i, (st, hists) in enumerate(sorted(reach.items(), key=lambda kv: str(kv[0]))):
            out.append({"sub": "key", "cfg": "asm" if i % 4 else ("c32" if i % 8 else "c64"), "l": U["l"], "sig": sig, "history": hists[0], "state": [st[0], list(st[1])], "corrupt": (i % 3 == 0)})
    ctx.extra["abstract_states"] = len(reach)
    # unmarshal histories into one re-used destination object
    hist_free2 = next((h[0] for st, h in sorted(reach.items(), key=lambda kv: str(kv[0])) if len(wk.free_slots(st[1])) >= min(2, U["l"]) and st[0] == "d"), None)
    for kind in ("wk_params", "wk_secretkey", "wk_ciphertext", "wk_signature", "wk_masterkey"):
        for comp in (True, False):
            for checked in ((True, False) if kind in ("wk_params", "wk_secretkey") else (True,)):
                out.append({"sub": "reuse", "cfg": "asm", "l": U["l"], "sig": True, "kind": kind, "comp": comp, "checked": checked, "history": hist_free2})
    return out


def run_shard(ctx, shard):
    sub = shard["sub"]
    if sub == "reuse":
        case = dict(shard, seed=ctx.seed)
        msgs, n = eval_reuse(case)
        ctx.ok(True, "reuse-histories:" + shard["kind"], n=n)
        ctx.sample({k: v for k, v in case.items() if k != "history"}, limit=1)
        if msgs:
            bad = msgs[0].split(":")[0].replace("history ", "")
            try:
                case["seqs"] = [eval(bad)]
            except Exception:
                pass
            ctx.fail(case, "; ".join(msgs[:3]), sig="reuse:" + shard["kind"])
        return
    if sub == "lq":
        case = {"sub": "lq", "cfg": shard["cfg"], "seed": ctx.seed}
        msgs = eval_case(case)
        ctx.ok(True, "lq-objects", n=5 * 2)
        if msgs:
            ctx.fail(case, "; ".join(msgs[:3]), sig="lq:" + msgs[0].split(":")[0][:30])
        return
    case = {"sub": sub, "cfg": shard["cfg"], "l": shard["l"], "sig": shard["sig"], "seed": ctx.seed, "corrupt": shard.get("corrupt", True)}
    if sub == "params" and shard["l"] > 3:
        case["with_keys"] = True
    if sub == "params":
        case["history"] = None
    else:
        case["history"] = shard["history"]
    msgs = eval_case(case)
    nslots = shard["l"] if sub == "params" else sum(1 for s in shard["state"][1] if s == wk.FREE)
    ctx.ok(nslots > 0 or case["corrupt"], "%s:slots%s:%s" % (sub, nslots if nslots <= 3 else ">3", "sig" if shard["sig"] else "nosig"), n=2 * (2 if sub == "params" else (4 if shard["sig"] else 3)))
    ctx.sample({k: v for k, v in case.items() if k != "history"}, limit=1)
    if msgs:
        ctx.fail(case, "; ".join(msgs[:3]), sig="%s:%s" % (sub, "corruption-accepted" if "accepts a buffer" in msgs[0] else ("length" if "length" in msgs[0] else "roundtrip")))


def replay(ctx, case):
    return eval_case(case)


def finish(merged, cov):
    o = merged.outcomes
    for need in ("params:slots0:nosig", "params:slots3:sig", "key:slots0:nosig", "key:slots2:sig", "lq-objects", "reuse-histories:wk_params", "reuse-histories:wk_secretkey"):
        if not o.get(need):
            return "class %s never exercised" % need
    cov["states"] = merged.extra.get("abstract_states", 1)
    cov["transitions"] = merged.evaluations
    cov["traces_validated_against_impl"] = merged.evaluations
    return None
