"""C14 - WKD-IBE incremental and precomputed paths equal recomputation from scratch (engine B, differential)."""
import itertools

from vlib import build, ffi, ref, wk
from checks import c11

PROPERTY = "C14"
LEVEL = "model_checking"
RULE = ("exhaustive over ordered list pairs and chains: adjust_precomputed(precompute(F),F,T) == precompute(T) for ALL ordered pairs (F,T) of the attribute-list "
        "alphabet (per slot absent/v1/v2/hidden, l=3; plus lists with the special ids 0, r, r+v1, 2^256-1) and for ALL chains F->M->T (l=2 quick, l=3 thorough); "
        "adjust_nondelegable(NDQ(parent,F),parent,F,T) == NDQ(parent,T) component for component (a0, a1, bsig, l, every idx and hexp) for EVERY reachable parent "
        "state (replayed from its witness history) and EVERY permitted (F,T), and for chains of two adjustments carried out in place on ONE key object whose "
        "spare slot entries (beyond the current l) hold canary bytes, zeros or a foreign key's valid-looking slots; encrypt_precomputed / verify_precomputed / "
        "sign_precomputed are interchanged with their direct forms on every state. state = (parent state, F, T); non-trivial = F != T")
ASSUMPTIONS = ["hidden entries carry id 0 (as the Go binding builds them)", "group elements are compared with the library's projective equality (decided by C05)"]


def lists_for(l, tier, special=True):
    out = wk.list_alphabet(l, ["v1", "v2"], omit_flags=(False,))
    if special:
        for nm in ("0", "r", "r+v1", "max", "1", "sp"):
            for i in range(l):
                out.append({"e": [[i, nm]], "omit": False})
                if l > 1:
                    out.append({"e": sorted([[i, nm], [(i + 1) % l, "v2"]]), "omit": False})
    return out


def g1eq(W, a, b):
    return W.L.call("embedded_pairing_bls12_381_g1_equal", a, b) & 1


def precompute(W, Ls):
    pre = W.L.buf(W.N.sz["wk_precomputed"])
    W.L.call("embedded_pairing_wkdibe_precompute", pre, W.params.buf, W.al(Ls))
    return pre


def eval_case(case):
    W = c11.world(case["cfg"], case["l"], case["sig"], case["seed"])
    L = W.L
    msgs = []
    sub = case["sub"]
    if sub == "pre":
        chain = case["chain"]
        pre = precompute(W, chain[0])
        for a, b in zip(chain, chain[1:]):
            ala, alb = W.al_pair(a, b, share=case.get("share", False))
            L.call("embedded_pairing_wkdibe_adjust_precomputed", pre, W.params.buf, ala, alb)
        direct = precompute(W, chain[-1])
        if not g1eq(W, pre, direct):
            msgs.append("adjust_precomputed along %s != precompute(target)" % (" -> ".join(str(c["e"]) for c in chain)))
        return msgs
    if sub == "nd":
        key, state = W.replay(case["history"])
        chain = case["chain"]
        if any(not wk.permitted(state[1], c, W.vals) for c in chain):
            return ["not permitted"] if case.get("want_run") else []
        # the Go binding adjusts ONE key object again and again: its slot array is (re)allocated to parent.l entries once and every
        # later adjustment works in place, so entries beyond the current l are whatever an earlier state (or malloc) left there.
        # The result must not depend on that content: it is enumerated (canary bytes, zeros, a foreign key's valid-looking slots).
        child = W.apply(key, ["ndqualify", chain[0]])
        cur = W.newkey(key.l)
        fs = W.N.sz["wk_freeslot"]
        garbage = case.get("garbage", "canary")
        if garbage == "zero":
            ffi.ctypes.memset(cur.b, 0, fs * cur.slots)
        elif garbage == "foreign" and key.l > 0:
            other = W.apply(key, ["resample", True, state[1]], ffi.CounterRng("c14-foreign"))     # same slots, other randomness
            ffi.ctypes.memmove(cur.b, other.b.raw[:fs * key.l], fs * key.l)
        for fld, size in (("a0", W.N.sz["g1"]), ("a1", W.N.sz["g2"]), ("l", 4), ("signatures", 1), ("bsig", W.N.sz["g1"])):
            o = W.N.off["wk_secretkey." + fld]
            ffi.ctypes.memmove(ffi.ctypes.byref(cur.buf, o), child.buf.raw[o:o + size], size)
        n = min(max(child.l, 0), cur.slots)
        ffi.ctypes.memmove(cur.b, child.b.raw[:fs * n], fs * n)
        for a, b in zip(chain, chain[1:]):
            ala, alb = W.al_pair(a, b, share=case.get("share", False))
            L.call("embedded_pairing_wkdibe_adjust_nondelegable", cur.buf, key.buf, ala, alb)
        direct = W.apply(key, ["ndqualify", chain[-1]])
        if cur.overrun():
            msgs.append("adjust_nondelegable wrote beyond parent.l slots")
        if cur.idxs() != direct.idxs():
            msgs.append("free slots %s != %s of direct qualification" % (cur.idxs(), direct.idxs()))
        else:
            for i in range(direct.l):
                if not g1eq(W, cur.slot(i)[1], direct.slot(i)[1]):
                    msgs.append("hexp of slot %d differs" % i)
        if not g1eq(W, cur.field("a0", W.N.sz["g1"]), direct.field("a0", W.N.sz["g1"])):
            msgs.append("a0 differs from direct qualification")
        if not (L.call("embedded_pairing_bls12_381_g2_equal", cur.field("a1", W.N.sz["g2"]), direct.field("a1", W.N.sz["g2"])) & 1):
            msgs.append("a1 differs")
        if not g1eq(W, cur.field("bsig", W.N.sz["g1"]), direct.field("bsig", W.N.sz["g1"])):
            msgs.append("bsig differs")
        if cur.signatures != direct.signatures:
            msgs.append("signatures flag differs")
        return msgs
    if sub == "enc":
        key, state = W.replay(case["history"])
        pat = state[1]
        pre = W.precompute_key_pattern(pat)
        for m in W.messages():
            ct = L.buf(W.N.sz["wk_ciphertext"])
            L.call("embedded_pairing_wkdibe_encrypt_precomputed", ct, m, W.params.buf, pre, W.rng.cb)
            if W.decrypt(ct, key) != m or W.decrypt_master(ct) != m:
                msgs.append("ciphertext from encrypt_precomputed does not decrypt")
        return msgs
    raise ValueError(sub)


def eval_long(case):
    """l = 65; F = a list of n entries, T in {empty, first entry only, last entry only, first two, F with the middle entry changed, F}:
    adjust_precomputed and adjust_nondelegable (parent = keygen of the empty list, so every slot is free in the parent) in both directions"""
    W = c11.world(case["cfg"], wk.LONG_L, case["n"] % 2 == 1, case["seed"])
    L = W.L
    n = case["n"]
    F = wk.long_list(n)
    mid = [list(e) for e in F["e"]]
    mid[n // 2][1] = "v2" if mid[n // 2][1] == "v1" else "v1"
    Ts = [{"e": [], "omit": False}, {"e": F["e"][:1], "omit": False}, {"e": F["e"][-1:], "omit": False}, {"e": F["e"][:2], "omit": False},
          {"e": mid, "omit": False}, {"e": F["e"][1:], "omit": False}, {"e": F["e"][:-1], "omit": False}]
    msgs = []
    parent, state = W.replay([["keygen", {"e": [], "omit": False}]])
    for T in Ts:
        for A, B in ((F, T), (T, F)):
            pre = precompute(W, A)
            L.call("embedded_pairing_wkdibe_adjust_precomputed", pre, W.params.buf, W.al(A), W.al(B))
            if not g1eq(W, pre, precompute(W, B)):
                msgs.append("adjust_precomputed from %d to %d entries != precompute(target)" % (len(A["e"]), len(B["e"])))
            sub = dict(case, sub="nd", l=wk.LONG_L, sig=(n % 2 == 1), history=[["keygen", {"e": [], "omit": False}]], chain=[A, B])
            m2 = eval_case(sub)
            msgs += ["adjust_nondelegable from %d to %d entries: %s" % (len(A["e"]), len(B["e"]), m) for m in m2[:2]]
    # a DELEGATED parent: its first three entries of F are fixed, and the lists repeat them (several list entries in front of the parent's first
    # free slot - the merge cursors must skip all of them; seeded C11-r7a stepped over one per round)
    if n >= 5:
        hist = [["keygen", {"e": F["e"][:3], "omit": False}]]
        Ts2 = [{"e": F["e"][:3], "omit": False}, {"e": F["e"][:-1], "omit": False}, {"e": F["e"][:3] + F["e"][4:], "omit": False}, {"e": mid, "omit": False}]
        ran = 0
        for T in Ts2:
            for A, B in ((F, T), (T, F)):
                sub = dict(case, sub="nd", l=wk.LONG_L, sig=(n % 2 == 1), history=hist, chain=[A, B], want_run=True)
                m2 = eval_case(sub)
                if m2 != ["not permitted"]:
                    ran += 1
                    msgs += ["adjust_nondelegable under a parent with 3 fixed slots, from %d to %d entries: %s" % (len(A["e"]), len(B["e"]), m) for m in m2[:2]]
        if ran < 4:
            msgs.append("vacuous: only %d adjustments under the delegated parent were permitted" % ran)
    return msgs


def shards(ctx):
    build.build("asm")
    build.build("c32")
    build.build("c64")
    out = []
    for k in range(8):
        out.append({"sub": "pre-pairs", "part": k, "parts": 8})
    for k in range(16):
        out.append({"sub": "pre-chains", "part": k, "parts": 16})
    U = c11.universe(ctx)
    vals = wk.values(ctx.seed)
    reach = wk.reachable(U["l"], U["names"], vals, witnesses=1)
    for st, hists in sorted(reach.items(), key=lambda kv: str(kv[0])):
        out.append({"sub": "nd", "state": [st[0], list(st[1])], "history": hists[0]})
    ctx.extra["abstract_states"] = len(reach)
    # the portable 32-bit / ARM-like-ABI build runs the non-delegable adjustments of every 4th state as well
    for k, (st, hists) in enumerate(sorted(reach.items(), key=lambda kv: str(kv[0]))):
        if k % 4 == 1:
            out.append({"sub": "nd", "state": [st[0], list(st[1])], "history": hists[0], "cfg": "c32"})
        if k % 4 == 3:
            out.append({"sub": "nd", "state": [st[0], list(st[1])], "history": hists[0], "cfg": "c64"})
    for cfg in ("c64", "c32"):
        out.append({"sub": "pre-pairs", "part": 0, "parts": 8, "cfg": cfg})
    out.append({"sub": "long", "n": 9, "cfg": "c64"})
    # list lengths as operands (l = 65): adjustments between long and short lists in both directions
    for n in (wk.LONG_N if ctx.tier == "thorough" else [5, 9, 17, 33, 65]):
        out.append({"sub": "long", "n": n})
    return out


def run_shard(ctx, shard):
    sub = shard["sub"]
    seed = ctx.seed
    if sub == "long":
        case = {"sub": "long", "cfg": shard.get("cfg", "asm"), "seed": seed, "n": shard["n"]}
        msgs = eval_long(case)
        ctx.ok(True, "long-lists", n=36)
        if msgs:
            ctx.fail(case, "; ".join(msgs[:3]), sig="long-lists")
        return

    def emit(case, nontrivial, outcome):
        msgs = eval_case(case)
        ctx.ok(nontrivial, outcome)
        ctx.sample(case, limit=1)
        if msgs:
            kind = outcome
            ctx.fail(case, "; ".join(msgs[:3]), sig=kind)

    def shareable(chain):
        """consecutive lists whose entries are prefixes of one another can be two headers over one attribute array (same array, other length
        and / or other omitAllFromKeysUnlessPresent): inputs that overlap in memory are legal, and the result must not depend on it"""
        ok = False
        for a, b in zip(chain, chain[1:]):
            ea, eb = a["e"], b["e"]
            lo, sh = (ea, eb) if len(ea) >= len(eb) else (eb, ea)
            if [list(e) for e in lo[:len(sh)]] == [list(e) for e in sh] and (ea != eb or a["omit"] != b["omit"]):
                ok = True
        return ok

    def klass(chain):
        names = {c for L in chain for _, c in L["e"]}
        if names & {"0", "r", "r+v1", "max", "1", "sp"}:
            return "special-ids"
        if any(wk.is_hidden(n) for n in names):
            return "hidden-entry"
        return "plain"

    if sub == "pre-pairs":
        Ls = lists_for(3, ctx.tier)
        pairs = list(itertools.product(Ls, Ls))[shard["part"]::shard["parts"]]
        for F, T in pairs:
            emit({"sub": "pre", "cfg": shard.get("cfg", "asm"), "l": 3, "sig": False, "seed": seed, "chain": [F, T]}, F != T, "pre-pair:" + klass([F, T]))
            if shareable([F, T]):
                emit({"sub": "pre", "cfg": shard.get("cfg", "asm"), "l": 3, "sig": False, "seed": seed, "chain": [F, T], "share": True}, True, "pre-pair:shared-attribute-array")
            if ctx.out_of_time():
                return
    elif sub == "pre-chains":
        l = 2 if ctx.tier == "quick" else 3
        Ls = lists_for(l, ctx.tier, special=(ctx.tier == "quick"))
        triples = list(itertools.product(Ls, Ls, Ls))[shard["part"]::shard["parts"]]
        for ch in triples:
            emit({"sub": "pre", "cfg": "asm", "l": l if l == 3 else 2, "sig": False, "seed": seed, "chain": list(ch)}, len({wk.lkey(c) for c in ch}) > 1, "pre-chain:" + klass(ch))
            if ctx.out_of_time():
                return
    elif sub == "nd":
        U = c11.universe(ctx)
        vals = wk.values(seed)
        state = (shard["state"][0], tuple(shard["state"][1]))
        lists = wk.list_alphabet(U["l"], U["names"])
        if ctx.tier == "thorough":
            lists = lists + c11.special_lists(U["l"])
        perm = [L for L in lists if wk.permitted(state[1], L, vals)]
        for sig in (False, True):
            base = {"cfg": shard.get("cfg", "asm"), "l": U["l"], "sig": sig, "seed": seed, "history": shard["history"]}
            if shard.get("cfg") and sig:
                continue
            if sig and len(perm) > 16:
                pairs = list(itertools.product(perm[::3], perm[::3]))
            else:
                pairs = list(itertools.product(perm, perm))
            for F, T in pairs:
                emit(dict(base, sub="nd", chain=[F, T]), F != T, "nd-pair:" + klass([F, T]) + ("+omit-all" if T["omit"] or F["omit"] else ""))
                if shareable([F, T]):
                    emit(dict(base, sub="nd", chain=[F, T], share=True), True, "nd-pair:shared-attribute-array" + ("+other-omit-all" if T["omit"] != F["omit"] else ""))
                if not sig:
                    for g in ("zero", "foreign"):
                        emit(dict(base, sub="nd", chain=[F, T], garbage=g), F != T, "nd-pair-stale-slots:" + g)
                if ctx.out_of_time():
                    return
            # chains of two adjustments
            mids = perm[:: max(1, len(perm) // 4)]
            for F, M, T in itertools.product(perm[:: max(1, len(perm) // 6)], mids, perm[:: max(1, len(perm) // 6)]):
                emit(dict(base, sub="nd", chain=[F, M, T]), True, "nd-chain")
                emit(dict(base, sub="nd", chain=[F, M, T], garbage="foreign"), True, "nd-chain-stale-slots")
            emit(dict(base, sub="enc"), True, "encrypt_precomputed")


def replay(ctx, case):
    if case.get("sub") == "long":
        return eval_long(case)
    return eval_case(case)


def finish(merged, cov):
    for need in ("pre-pair:plain", "pre-pair:hidden-entry", "pre-pair:special-ids", "pre-chain:plain", "nd-pair:plain", "nd-pair:hidden-entry", "nd-pair:plain+omit-all",
                 "nd-chain", "encrypt_precomputed", "long-lists", "pre-pair:shared-attribute-array", "nd-pair:shared-attribute-array", "nd-pair:shared-attribute-array+other-omit-all"):
        if not merged.outcomes.get(need):
            return "class %s never exercised" % need
    cov["states"] = merged.extra.get("abstract_states", 1)
    cov["transitions"] = merged.evaluations
    cov["traces_validated_against_impl"] = merged.evaluations
    return None
