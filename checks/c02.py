"""C02 - Fq / Fr are exact modular arithmetic with canonical results (engines A + S)."""
import itertools
import json
import os
import subprocess

from vlib import alpha, build, ffi, ref

PROPERTY = "C02"
LEVEL = "model_checking"
RULE = ("bounded-exhaustive: full Cartesian products of boundary alphabets (named boundary values B(m), canonical members of "
        "the per-limb product {0,2^64-1,m_i}^n, targeted pairs with sums on/just below/just above m and 2^bits) x operations x "
        "back ends {asm(BMI2/ADX), asm(baseline), portable 64-bit, portable 32-bit}, each case compared with Python integer "
        "arithmetic; plus the same template source instantiated with 8-bit words and 13..15-bit primes and run on ALL inputs. "
        "distinct = distinct (config, op, operand tuple) by construction of deduplicated alphabets; non-trivial = not all operands in {0,1}")
ASSUMPTIONS = ["Python int arithmetic is the ground truth",
               "Fq::compare is pinned to the integer order of the internal residues a*2^384 mod q (documented library behaviour; wire format depends on it)",
               "square_root may return either root of a square",
               "engine S: small-scope hypothesis - carry/meta-carry/conditional-subtraction logic is parametric in word size and count"]

CONFIGS = ["asm", "asm-base", "c64", "c32"]
FIELDS = {"fq": (ref.q, 384), "fr": (ref.r, 256)}


def getlib(cfg):
    L = ffi.lib("asm" if cfg == "asm-base" else cfg)
    if getattr(L, "readonly", False):
        return L            # write-protected image (C20 monitor): the dispatch table cannot be switched
    # (-3: this library's dispatch cannot be switched from outside - both names then run the library's own choice)
    if cfg == "asm-base":
        assert L.f("vk_dispatch")(0) in (0, -3)
    elif cfg == "asm":
        L.f("vk_dispatch")(1 if L.f("vk_cpu_bmi2_adx")() == 1 else 0)
    return L


def pack(field, a):
    m, bits = FIELDS[field]
    R = ref.MONT_Q if field == "fq" else ref.MONT_R
    return (a % m * R % m).to_bytes(bits // 8, "little")


def unpack(field, b):
    """returns (value, canonical?)"""
    m, bits = FIELDS[field]
    raw = int.from_bytes(b[:bits // 8], "little")
    RI = ref.MONT_Q_INV if field == "fq" else ref.MONT_R_INV
    return raw * RI % m, raw < m


def residue_twin(field, vals):
    """values whose INTERNAL (Montgomery) residues are the given alphabet values: the carry / borrow / compare-with-modulus decision
    points of add, subtract, double, negate and of the final conditional subtraction lie in the residue domain, not in the value domain"""
    m, bits = FIELDS[field]
    RI = ref.MONT_Q_INV if field == "fq" else ref.MONT_R_INV
    return [v * RI % m for v in vals if v < m]


def operands(field, seed, tier):
    m, bits = FIELDS[field]
    n = bits // 64
    A = alpha.boundary(m, bits, seed, nfill=6 if tier == "quick" else 16)
    lp = [v for v in alpha.limb_product(m, n, 3) if v < m]
    if tier == "quick":
        lp = lp[:: max(1, len(lp) // 60)]
    return alpha.dedup(A + lp)


def unary_operands(field, seed, tier):
    m, bits = FIELDS[field]
    n = bits // 64
    A = operands(field, seed, tier)
    half = [v for v in alpha.half_limb_product(m, n, rich=(tier == "thorough" and field == "fr")) if v < m]
    if tier == "thorough":
        lv = 9 if field == "fr" else 5
        A = alpha.dedup(A + [v for v in alpha.limb_product(m, n, lv) if v < m] + half)
    else:
        A = alpha.dedup(A + half[:: max(1, len(half) // 400)] + [v for v in half if abs(v - m // 2) < 2**70][:200])
    return A


BINOPS = {"add": lambda a, b, m: (a + b) % m, "subtract": lambda a, b, m: (a - b) % m, "multiply": lambda a, b, m: a * b % m}


def exponents(bits, m, seed, tier):
    e = [0, 1, 2, 3, m - 1, m - 2, (m - 1) // 2, (m + 1) // 4, 2**bits - 1, 2**bits - 2, 2**(bits - 1)]
    step = 8 if tier == "quick" else 1
    e += [2**k for k in range(0, bits, step)]
    e += [alpha.filler(seed, "exp%d" % bits, i, bits) for i in range(2 if tier == "quick" else 6)]
    return alpha.dedup(v for v in e if 0 <= v < 2**bits)


# --------------------------------------------------------------------------------------------- evaluation of one case
def eval_case(case):
    sub = case["sub"]
    cfg = case["cfg"]
    L = getlib(cfg)
    msgs = []
    if sub == "bigint":
        return eval_bigint(L, case)
    if sub == "constants":
        return eval_constants(L)
    field = case["field"]
    m, bits = FIELDS[field]
    nb = bits // 8
    pre = "vk_%s_" % field
    a = int(case["a"], 16) if "a" in case else None
    b = int(case["b"], 16) if "b" in case else None

    def check_val(out, exp, what):
        v, canon = unpack(field, out)
        if not canon:
            msgs.append("%s: result residue not below the modulus" % what)
        if v != exp % m:
            msgs.append("%s: got %x expected %x" % (what, v, exp % m))

    if sub == "binop":
        op = case["op"]
        alias = case.get("alias", "none")
        ba = L.buf(nb, pack(field, a))
        bb = ba if alias in ("a=b", "out=a=b") else L.buf(nb, pack(field, b))
        if alias == "out=a" or alias == "out=a=b":
            bo = ba
        else:
            bo = L.buf(nb, b"\xCD" * nb)
        L.f(pre + op)(bo, ba, bb)
        check_val(bo.raw, BINOPS[op](a, b if alias not in ("a=b", "out=a=b") else a, m), op)
    elif sub == "unop":
        op = case["op"]
        if op == "multiply2":
            check_val(L.out(pre + op, nb, pack(field, a)), 2 * a, op)
        elif op == "negate":
            check_val(L.out(pre + op, nb, pack(field, a)), -a, op)
        elif op == "square":
            check_val(L.out(pre + op, nb, pack(field, a)), a * a, op)
        elif op == "inverse":
            out = L.out(pre + op, nb, pack(field, a))
            check_val(out, pow(a, -1, m) if a % m else 0, op)
            if field == "fq":
                out2 = L.out("vk_fq_inverse_member", nb, pack(field, a))
                if out2 != out:
                    msgs.append("Fq::inverse differs from fp_inverse")
        elif op == "set":
            check_val(L.out(pre + "set", nb, L.bi(a, bits)), a, op)
        elif op == "get":
            out = L.out(pre + "get", nb, pack(field, a))
            if int.from_bytes(out[:nb], "little") != a % m:
                msgs.append("get: got %x expected %x" % (int.from_bytes(out[:nb], "little"), a % m))
        elif op == "into_montgomery_form":
            bo = L.buf(nb, L.bi(a, bits))
            L.f(pre + op)(bo)
            check_val(bo.raw, a, op)
        elif op == "legendre":
            got = L.call(pre + "legendre", pack(field, a))
            if got != ref.legendre(a, m):
                msgs.append("legendre: got %d expected %d" % (got, ref.legendre(a, m)))
        elif op == "sqrt_of_square":
            sq = a * a % m
            out = L.out(pre + "square_root", nb, pack(field, sq))
            v, canon = unpack(field, out)
            if not canon:
                msgs.append("square_root: non-canonical")
            if v * v % m != sq:
                msgs.append("square_root(%x^2): got %x which does not square back" % (a, v))
        elif op == "sqrt_value":
            out = L.out(pre + "square_root", nb, pack(field, a))
            v, canon = unpack(field, out)
            if not canon:
                msgs.append("square_root: non-canonical")
            if v * v % m != a % m:
                msgs.append("square_root(%x): got %x which does not square back" % (a, v))
        elif op == "predicates":
            z = L.call(pre + "is_zero", pack(field, a))
            o = L.call(pre + "is_one", pack(field, a))
            if z != (1 if a % m == 0 else 0) or o != (1 if a % m == 1 else 0):
                msgs.append("is_zero/is_one: got %d/%d for %x" % (z, o, a))
            c = L.out(pre + "copy", nb, pack(field, a))
            if c != pack(field, a):
                msgs.append("copy changed the value")
        else:
            raise ValueError(op)
    elif sub == "cmp":
        eq = L.call(pre + "equal", pack(field, a), pack(field, b))
        if eq != (1 if a % m == b % m else 0):
            msgs.append("equal(%x,%x) = %d" % (a, b, eq))
        if field == "fq":
            got = L.call("vk_fq_compare", pack(field, a), pack(field, b))
            exp = ref.fq_lib_cmp(a, b)
            if got != exp:
                msgs.append("compare(%x,%x) = %d expected %d (order of internal residues)" % (a, b, got, exp))
    elif sub == "exp":
        w = case["w"]
        e = int(case["e"], 16)
        out = L.out(pre + "exp%d" % w, nb, pack(field, a), L.bi(e, w))
        check_val(out, pow(a, e, m), "exponentiate<%d>" % w)
        if w == 256:
            out2 = L.out(pre + "exp256_restrict", nb, pack(field, a), L.bi(e, w))
            if out2 != out:
                msgs.append("exponentiate_restrict differs from exponentiate")
    elif sub == "bytes":
        s = bytes.fromhex(case["s"])
        if case["op"] == "read_be":
            out = L.out("vk_fq_read_be", 48, s)
            check_val(out, (int.from_bytes(s, "big") & (2**381 - 1)) % ref.q, "read_big_endian")
        elif case["op"] == "write_be":
            v = int.from_bytes(s, "big") % ref.q
            out = L.out("vk_fq_write_be", 48, pack("fq", v))
            if out != v.to_bytes(48, "big"):
                msgs.append("write_big_endian(%x) wrote %s" % (v, out.hex()))
        elif case["op"] == "hash_reduce":
            nbits = 381 if field == "fq" else 255
            raw = int.from_bytes(s[:nb], "big")
            bo = L.buf(nb, raw.to_bytes(nb, "little"))
            top = L.f(pre + "hash_reduce")(bo)
            got = int.from_bytes(bo.raw[:nb], "little")
            exp = (raw & (2**nbits - 1)) % m
            if got != exp or top != (raw >> (bits - 1)):
                msgs.append("hash_reduce(%x): got %x top=%d expected %x top=%d" % (raw, got, top, exp, raw >> (bits - 1)))
    elif sub == "reduce":
        if case["op"] == "reduce":
            out = L.out(pre + "reduce", nb, L.bi(a, bits))
            check_raw = int.from_bytes(out[:nb], "little")
            if check_raw != a % m:
                msgs.append("reduce(%x) = %x" % (a, check_raw))
        else:   # montgomery_reduce of a double-width T < m * 2^bits
            R = 1 << bits
            bt = L.buf(2 * nb, a.to_bytes(2 * nb, "little"))
            bo = L.buf(nb, b"\xCD" * nb)
            L.f(pre + "montgomery_reduce")(bo, bt)
            got = int.from_bytes(bo.raw[:nb], "little")
            exp = a * pow(R, -1, m) % m
            if got != exp:
                msgs.append("montgomery_reduce(%x) = %x expected %x" % (a, got, exp))
    elif sub == "constants":
        msgs += eval_constants(L)
    else:
        raise ValueError(sub)
    return msgs


def eval_constants(L):
    msgs = []
    for field, (m, bits) in FIELDS.items():
        nb = bits // 8
        R = pow(2, bits, m)
        exp = {"modulus": m, "R": R, "R2": R * R % m, "inv": (-pow(m, -1, 2**bits)) % 2**bits}
        for k, v in exp.items():
            got = int.from_bytes(L.const("%s_%s" % (field, k), nb), "little")
            if got != v:
                msgs.append("constant %s_%s = %x expected %x" % (field, k, got, v))
        z, _ = unpack(field, L.const(field + "_zero", nb))
        o, _ = unpack(field, L.const(field + "_one", nb))
        if z != 0 or o != 1:
            msgs.append("%s zero/one constants wrong" % field)
    n1, _ = unpack("fq", L.const("fq_negative_one", 48))
    if n1 != ref.q - 1:
        msgs.append("Fq::negative_one wrong")
    return msgs


BI_WIDTHS = [64, 128, 192, 256, 384, 512, 768]


def eval_bigint(L, case):
    msgs = []
    w = case["w"]
    op = case["op"]
    a = int(case["a"], 16)
    b = int(case.get("b", "0"), 16)
    nb = L.size["bigint%d" % w]
    pre = "vk_bi%d_" % w
    word = L.word_bits
    mask = (1 << w) - 1

    def val(bs):
        return int.from_bytes(bs[:w // 8], "little")

    carry_reliable = (w % (2 * word) == 0)
    if op in ("add", "subtract"):
        rv, out = L.outr(pre + op, nb, L.bi(a, w), L.bi(b, w))
        full = a + b if op == "add" else a - b
        if val(out) != full & mask:
            msgs.append("%s<%d>: value" % (op, w))
        if carry_reliable and rv != (1 if (full >> w) != 0 else 0):
            msgs.append("%s<%d>: carry/borrow %d" % (op, w, rv))
    elif op in ("shl1", "shr1", "shl3", "shr3"):
        amt = int(op[-1])
        rv, out = L.outr(pre + op, nb, L.bi(a, w))
        if op.startswith("shl"):
            exp, ex_out = (a << amt) & mask, (a >> (w - amt))
        else:
            exp, ex_out = a >> amt, (a & ((1 << amt) - 1)) << (word - amt)
        if val(out) != exp:
            msgs.append("%s<%d>: value %x expected %x" % (op, w, val(out), exp))
        if rv != ex_out:
            msgs.append("%s<%d>: shifted-out word %x expected %x" % (op, w, rv, ex_out))
    elif op in ("shift_left", "shift_right"):
        amt = case["amt"]
        rv, out = L.outr(pre + op, nb, L.bi(a, w), ffi.c_uint(amt))
        exp = (a << amt) & mask if op == "shift_left" else a >> amt
        if val(out) != exp:
            msgs.append("%s<%d>(%d): value %x expected %x" % (op, w, amt, val(out), exp))
        # returned word: the part of the shifted-out bits that crosses the last word boundary
        wo, bo = amt // word, amt % word
        if op == "shift_left":
            exp_rv = (a >> (w - amt)) & ((1 << bo) - 1) if amt else 0
        else:
            exp_rv = (((a >> (word * wo)) & ((1 << bo) - 1)) << (word - bo)) & ((1 << word) - 1) if bo else 0
        if rv != exp_rv:
            msgs.append("%s<%d>(%d): returned word %x expected %x" % (op, w, amt, rv, exp_rv))
    elif op == "cmp":
        c = L.call(pre + "compare", L.bi(a, w), L.bi(b, w))
        e = L.call(pre + "equal", L.bi(a, w), L.bi(b, w))
        if c != (a > b) - (a < b) or e != (1 if a == b else 0):
            msgs.append("compare/equal<%d>(%x,%x) = %d/%d" % (w, a, b, c, e))
        pr = (L.call(pre + "is_zero", L.bi(a, w)), L.call(pre + "is_one", L.bi(a, w)), L.call(pre + "is_even", L.bi(a, w)), L.call(pre + "is_odd", L.bi(a, w)))
        if pr != (int(a == 0), int(a == 1), int(a % 2 == 0), int(a % 2 == 1)):
            msgs.append("predicates<%d>(%x) = %s" % (w, a, pr))
    elif op == "bits":
        ba = L.bi(a, w)
        got = 0
        for i in range(w):
            got |= L.call(pre + "bit", ba, i) << i
        if got != a:
            msgs.append("bit<%d>: %x" % (w, got))
        be = L.out(pre + "write_be", w // 8, ba)
        if be != a.to_bytes(w // 8, "big"):
            msgs.append("write_big_endian<%d>" % w)
        back = L.out(pre + "read_be", nb, be)
        if val(back) != a:
            msgs.append("read_big_endian<%d>" % w)
    elif op == "mul":
        wa, wb = case["wa"], case["wb"]
        out = L.out("vk_bi%d_multiply_%d_%d" % (w, wa, wb), nb, L.bi(a, wa), L.bi(b, wb))
        if val(out) != a * b:
            msgs.append("multiply<%d=%dx%d>(%x,%x) = %x" % (w, wa, wb, a, b, val(out)))
    elif op == "sqr":
        out = L.out(pre + "square", nb, L.bi(a, w // 2))
        if val(out) != a * a:
            msgs.append("square<%d>(%x) = %x" % (w, a, val(out)))
    elif op == "mul_lower":
        out = L.out(pre + "multiply_lower", nb, L.bi(a, w), L.bi(b, w))
        if val(out) != (a * b) & mask:
            msgs.append("multiply_lower<%d>" % w)
    elif op == "div":
        rv, out = L.outr(pre + "divx", nb, L.bi(a, w))
        if (val(out), rv) != divmod(a, ref.X_ABS):
            msgs.append("divide_std_dword<|x|><%d>(%x)" % (w, a))
        if w % word == 0:
            rv, out = L.outr(pre + "div10", nb, L.bi(a, w))
            if (val(out), rv) != divmod(a, 10):
                msgs.append("divide_word<10><%d>(%x)" % (w, a))
    else:
        raise ValueError(op)
    return msgs


# --------------------------------------------------------------------------------------------- enumeration
def hx(v):
    return "%x" % v


def shards(ctx):
    build.build("asm"), build.build("c64"), build.build("c32")
    out = []
    for cfg in CONFIGS:
        for field in FIELDS:
            for op in BINOPS:
                for part in range(4):
                    out.append({"sub": "binop", "cfg": cfg, "field": field, "op": op, "part": part, "parts": 4})
            out.append({"sub": "unop", "cfg": cfg, "field": field})
            out.append({"sub": "cmp", "cfg": cfg, "field": field})
            out.append({"sub": "exp", "cfg": cfg, "field": field})
            out.append({"sub": "bytes", "cfg": cfg, "field": field})
            out.append({"sub": "reduce", "cfg": cfg, "field": field})
        out.append({"sub": "bigint", "cfg": cfg})
        out.append({"sub": "constants", "cfg": cfg})
    # an unoptimised build: nothing is kept in registers across a store, so code that is only right because the optimiser happened to
    # forward a load (an operand re-read after an aliasing store) shows; one quarter of the binary-operation rows and the unary rows
    build.build("o0")
    for field in FIELDS:
        for op in BINOPS:
            out.append({"sub": "binop", "cfg": "o0", "field": field, "op": op, "part": 0, "parts": 4})
        out.append({"sub": "unop", "cfg": "o0", "field": field})
    for part in range(16):
        out.append({"sub": "w8", "part": part, "parts": 16})
    return out


def trivial(*vals):
    return all(v in (0, 1) for v in vals)


def emit(ctx, case, nontrivial=True, outcome=None):
    msgs = eval_case(case)
    ctx.ok(nontrivial, outcome or (case["sub"] + ":" + str(case.get("op", ""))))
    if msgs:
        ctx.fail(case, "; ".join(msgs), sig="%s:%s:%s" % (case["sub"], case.get("field", ""), case.get("op", "")))
    ctx.sample(case, limit=1)


def run_shard(ctx, shard):
    sub = shard["sub"]
    if sub == "w8":
        return run_w8(ctx, shard["part"], shard["parts"])
    cfg = shard["cfg"]
    seed, tier = ctx.seed, ctx.tier
    if sub == "constants":
        return emit(ctx, {"sub": "constants", "cfg": cfg})
    if sub == "bigint":
        return run_bigint(ctx, cfg)
    field = shard["field"]
    m, bits = FIELDS[field]
    if sub == "binop":
        A = operands(field, seed, tier)
        Ar = residue_twin(field, A)
        tr = alpha.targeted_pairs(m, bits, A)
        RI = ref.MONT_Q_INV if field == "fq" else ref.MONT_R_INV
        # value-domain pairs, and the same alphabets placed in the residue domain (both operands): sums/differences of residues that
        # land exactly on / next to the modulus and the word-size power
        pairs = alpha.dedup(list(itertools.product(A, A)) + tr + list(itertools.product(Ar, Ar)) + [(a * RI % m, b * RI % m) for a, b in tr])
        pairs = pairs[shard["part"]::shard["parts"]]
        op = shard["op"]
        for a, b in pairs:
            emit(ctx, {"sub": "binop", "cfg": cfg, "field": field, "op": op, "a": hx(a), "b": hx(b)}, not trivial(a, b))
        # aliasing patterns on a smaller set (the value must not depend on where the output lives)
        for a, b in pairs[:: max(1, len(pairs) // 300)]:
            for al in ("out=a", "a=b", "out=a=b"):
                if al != "out=a" and op in ("add", "subtract"):
                    continue     # b is __restrict in add/subtract: it may not alias a or the output
                emit(ctx, {"sub": "binop", "cfg": cfg, "field": field, "op": op, "a": hx(a), "b": hx(b), "alias": al}, not trivial(a, b), "binop-alias:" + al)
            if ctx.out_of_time():
                return
    elif sub == "unop":
        A = unary_operands(field, seed, tier)
        A = alpha.dedup(A + residue_twin(field, A))
        for op in ("multiply2", "negate", "square", "inverse", "set", "get", "into_montgomery_form", "legendre", "sqrt_of_square", "predicates"):
            B = A
            if op in ("legendre", "sqrt_of_square", "inverse") and len(A) > 400:
                # each costs an exponentiation / a binary Euclid: keep EVERY named boundary value (as value and as internal residue: the
                # inversion works on the stored words, so raw words like 2^32+1, 2^64 or 2^k with many trailing zero bits matter) and thin
                # only the limb products
                core = alpha.boundary(m, bits, seed, nfill=6 if tier == "quick" else 16)
                core = alpha.dedup(core + residue_twin(field, core))
                B = alpha.dedup(core + A[:: len(A) // 400])
            if op == "multiply2":
                B = alpha.dedup(A + residue_twin(field, [v for v in alpha.half_limb_product(m, bits // 64) if v < m]))
            if op == "inverse":
                # inputs chosen by their OUTPUT: the binary Euclid ends with its cofactor equal to the stored result K, one halving step
                # earlier it held 2K - m (K > m/2) or 2K.  For K and for these predecessors drawn from the limb-product alphabets (zero /
                # all-ones / modulus limbs, sign-bit limbs) the last steps of every inversion run on boundary words although the input is
                # an unremarkable element: a = (element stored as K)^-1.
                RI = ref.MONT_Q_INV if field == "fq" else ref.MONT_R_INV
                n = bits // 64
                betas = alpha.dedup(alpha.limb_product(m, n, 3) + alpha.sign_limb_product(n)[:: (1 if field == "fr" else 5)])
                Ks = [b for b in betas if 0 < b < m]
                Ks += [(b + m) // 2 for b in betas if b % 2 == 1 and b < m] + [b // 2 for b in betas if b % 2 == 0 and 0 < b < m]
                if tier == "quick":
                    Ks = Ks[:: 3]
                B = alpha.dedup(B + [pow(K * RI % m, -1, m) for K in alpha.dedup(Ks) if K % m])
            for a in B:
                emit(ctx, {"sub": "unop", "cfg": cfg, "field": field, "op": op, "a": hx(a)}, not trivial(a))
            if ctx.out_of_time():
                return
        if field == "fr":
            # Tonelli-Shanks: every 2-adic class. w has order 2^32; a = w^(2^j) * (odd-order element)
            t = (ref.r - 1) >> 32
            w = pow(7, t, ref.r)
            assert pow(w, 2**31, ref.r) == ref.r - 1
            odd = pow(alpha.fillers(seed, "ts", 1, ref.r)[0], 2**32, ref.r)
            for j in range(1, 33):
                for o in (1, odd):
                    a = pow(w, 2**j, ref.r) * o % ref.r
                    emit(ctx, {"sub": "unop", "cfg": cfg, "field": "fr", "op": "sqrt_value", "a": hx(a)}, True, "fr-sqrt-2adic")
            # ... and every NUMBER OF ROUNDS of the Tonelli-Shanks loop: each round clears the lowest set bit of the discrete logarithm of
            # a^T to the base w, so a = w^m with -m = 2 (2^k - 1) mod 2^32 (k low bits set; T = -1 mod 2^32) needs exactly k rounds, k = 1..31
            # (k = 31 is the worst case, reached by the inverse of the square of the 2^32-th root of unity)
            assert t % 2**32 == 2**32 - 1
            for k in range(1, 32):
                mexp = (-2 * (2**k - 1)) % 2**32
                for o in (1, odd):
                    a = pow(w, mexp, ref.r) * o % ref.r
                    emit(ctx, {"sub": "unop", "cfg": cfg, "field": "fr", "op": "sqrt_value", "a": hx(a)}, True, "fr-sqrt-rounds")
    elif sub == "cmp":
        A = operands(field, seed, tier)
        A = A[:: max(1, len(A) // (60 if tier == "quick" else 150))]
        for a in A:
            for b in A:
                emit(ctx, {"sub": "cmp", "cfg": cfg, "field": field, "a": hx(a), "b": hx(b)}, not trivial(a, b))
    elif sub == "exp":
        bases = alpha.dedup([0, 1, 2, m - 1, (m - 1) // 2] + alpha.fillers(seed, "eb" + field, 2, m))
        for w in (64, 256, 384, 768):
            for e in (exponents(w, m, seed, tier) if w != 768 else [m * m, 2**768 - 1, 2**384, 2**512 + 1, (m**2 - 1) // 2, 1]):
                for a in bases:
                    emit(ctx, {"sub": "exp", "cfg": cfg, "field": field, "w": w, "a": hx(a), "e": hx(e)}, not trivial(a) and e > 1, "exp%d" % w)
            if ctx.out_of_time():
                return
    elif sub == "bytes":
        vals = alpha.boundary(m, bits, seed, nfill=4)
        strs = []
        nb = bits // 8
        for v in vals:
            strs.append(v.to_bytes(nb, "big"))
        if field == "fq":
            base = [0, 1, ref.q - 1, ref.q, ref.q + 1, 2**381 - 1, 2**381 - ref.q, alpha.fillers(seed, "rb", 1, ref.q)[0]]
            for v in base:
                for top in range(8):
                    if v < 2**381:
                        strs.append(((top << 381) | v).to_bytes(48, "big"))
            strs.append(b"\xff" * 48)
            strs = alpha.dedup(strs)
            for s in strs:
                emit(ctx, {"sub": "bytes", "cfg": cfg, "field": "fq", "op": "read_be", "s": s.hex()})
                emit(ctx, {"sub": "bytes", "cfg": cfg, "field": "fq", "op": "write_be", "s": s.hex()})
                emit(ctx, {"sub": "bytes", "cfg": cfg, "field": "fq", "op": "hash_reduce", "s": s.hex()})
        else:
            base = [0, 1, ref.r - 1, ref.r, ref.r + 1, 2**255 - 1, 2**255 - ref.r] + alpha.fillers(seed, "rb", 2, ref.r)
            for v in base:
                for top in range(2):
                    strs.append(((top << 255) | v).to_bytes(32, "big"))
            strs.append(b"\xff" * 32)
            for s in alpha.dedup(strs):
                emit(ctx, {"sub": "bytes", "cfg": cfg, "field": "fr", "op": "hash_reduce", "s": s.hex()})
    elif sub == "reduce":
        for a in alpha.dedup(alpha.limb_product(m, bits // 64, 3) + [m, m - 1, m + 1, 2 * m - 1, 2**bits - 1]):
            if a < 2 * m:      # FpBase::reduce subtracts at most once: domain [0, 2m)
                emit(ctx, {"sub": "reduce", "cfg": cfg, "field": field, "op": "reduce", "a": hx(a)})
        R = 1 << bits
        for T in crafted_reduction_inputs(m, bits, seed, tier):
            emit(ctx, {"sub": "reduce", "cfg": cfg, "field": field, "op": "montgomery_reduce", "a": hx(T)})


def crafted_reduction_inputs(m, bits, seed, tier):
    """T = v*R - mu*m reduces with quotient digits mu and yields exactly v before the final conditional subtraction
    (0 <= T < m*R). Makes the 'value equals m', 'top limb equal' and carry-out tails reachable."""
    R = 1 << bits
    n = bits // 64
    top = m >> (64 * (n - 1))
    vs = [0, 1, m - 1, m, m + 1, 2 * m - 1, 2 * m - 2]
    lows = [0, 1, 2**64 - 1, m & (2**64 - 1)]
    for lo in itertools.product(lows, repeat=min(n - 1, 3)):
        v = top << (64 * (n - 1))
        for i, l in enumerate(lo):
            v |= l << (64 * i)
        vs.append(v)
        vs.append(v + m if v + m < 2 * m else v)
    mus = [0, 1, R - 1, R // 2, m % R, (m - 1) % R] + [alpha.filler(seed, "mu", i, bits) for i in range(3 if tier == "quick" else 8)]
    mus += alpha.limb_product(m, n, 3)[:: 40 if tier == "quick" else 8]
    out = []
    for v in alpha.dedup(vs):
        for mu in alpha.dedup(mus):
            # T + mu*m = v*R  requires  T = v*R - mu*m  in [0, m*R)  and  (T * inv) mod R = mu, which holds by construction
            T = v * R - mu * m
            if 0 <= T < m * R:
                out.append(T)
    # the full limb-product alphabets on BOTH intermediates at once (quotient digits mu and the value v before the final subtraction): the
    # rows of the reduction add mu_k * m_j into words that v fixes, so carries between rows meet all-ones / zero words only for such pairs
    lp = [x for x in alpha.limb_product(m, n, 3)]
    vs2 = alpha.dedup([x for x in lp if x < 2 * m] + [x + m for x in lp if x + m < 2 * m])
    mus2 = lp[:: (8 if tier == "quick" else 1)] if n > 4 else lp
    for v in vs2:
        for mu in mus2:
            T = v * R - mu * m
            if 0 <= T < m * R:
                out.append(T)
    # plain products a*b of boundary values as well
    B = alpha.boundary(m, bits, seed, nfill=2)
    B = B[:: max(1, len(B) // 12)]
    out += [a * b for a in B for b in B]
    return alpha.dedup(out)


def run_bigint(ctx, cfg):
    seed, tier = ctx.seed, ctx.tier

    def vals(w, n=None):
        v = [0, 1, 2, 2**w - 1, 2**w - 2, 2**(w - 1), 2**(w - 1) - 1, 2**(w - 1) + 1]
        for k in range(32, w, 32):
            v += [2**k, 2**k - 1, 2**k + 1, 2**w - 2**k]
        v += [alpha.filler(seed, "bi%d" % w, i, w) for i in range(3)]
        v = alpha.dedup(x for x in v if 0 <= x < 2**w)
        if n and len(v) > n:
            v = v[:: (len(v) + n - 1) // n]
        return v

    for w in BI_WIDTHS:
        V = vals(w, 24 if tier == "quick" else 48)
        for a in V:
            for op in ("shl1", "shr1", "shl3", "shr3", "bits", "div"):
                emit(ctx, {"sub": "bigint", "cfg": cfg, "w": w, "op": op, "a": hx(a)}, not trivial(a), "bigint:" + op)
            for amt in alpha.dedup([0, 1, 31, 32, 33, 63, 64, 65, w // 2, w - 1]):
                if amt < w:
                    for op in ("shift_left", "shift_right"):
                        emit(ctx, {"sub": "bigint", "cfg": cfg, "w": w, "op": op, "a": hx(a), "amt": amt}, not trivial(a), "bigint:" + op)
            for b in V:
                for op in ("add", "subtract", "cmp", "mul_lower"):
                    emit(ctx, {"sub": "bigint", "cfg": cfg, "w": w, "op": op, "a": hx(a), "b": hx(b)}, not trivial(a, b), "bigint:" + op)
        if ctx.out_of_time():
            return
    for (w, wa, wb) in [(768, 384, 384), (512, 256, 256), (256, 128, 128), (128, 64, 64), (384, 128, 256), (256, 64, 192), (192, 64, 128)]:
        # 768-bit products: C02's domain is canonical operands; arbitrary 384-bit operands belong to C03
        for a in [v for v in vals(wa, 20) if w != 768 or v < ref.q]:
            for b in [v for v in vals(wb, 20) if w != 768 or v < ref.q]:
                emit(ctx, {"sub": "bigint", "cfg": cfg, "w": w, "op": "mul", "wa": wa, "wb": wb, "a": hx(a), "b": hx(b)}, not trivial(a, b), "bigint:mul")
    for w in (768, 512, 256):
        for a in [v for v in vals(w // 2, 60) if w != 768 or v < ref.q]:
            emit(ctx, {"sub": "bigint", "cfg": cfg, "w": w, "op": "sqr", "a": hx(a)}, not trivial(a), "bigint:sqr")


# --------------------------------------------------------------------------------------------- engine S
def run_w8(ctx, part, parts):
    exe = build.build_exe("c32", "w8", ["w8.cpp"], extra_flags=["-O2", "-U__SIZEOF_INT128__", "-DDISABLE_ASM"], link_lib=False)
    mode = "quick" if ctx.tier == "quick" else "thorough"
    p = subprocess.run([exe, mode, str(part), str(parts)], stdout=subprocess.PIPE, stderr=subprocess.PIPE, text=True)
    if p.returncode not in (0, 1):
        raise RuntimeError("w8 harness crashed: rc=%d %s" % (p.returncode, p.stderr[-2000:]))
    for line in p.stdout.splitlines():
        if line.startswith("STAT "):
            d = json.loads(line[5:])
            ctx.ok(True, "w8:" + d["op"], n=d["n"])
            ctx.extra["w8_evaluations"] += d["n"]
        elif line.startswith("FAIL "):
            d = json.loads(line[5:])
            ctx.fail({"sub": "w8", "args": d}, "8-bit-word instance: " + json.dumps(d), sig="w8:" + d["op"])
    ctx.sample({"sub": "w8", "note": "all operand pairs of Fp<16 bits, 8-bit words> for 4 primes, all T < p*2^16 for montgomery_reduce"})


def replay(ctx, case):
    if case["sub"] == "w8":
        exe = build.build_exe("c32", "w8", ["w8.cpp"], extra_flags=["-O2", "-U__SIZEOF_INT128__", "-DDISABLE_ASM"], link_lib=False)
        d = case["args"]
        p = subprocess.run([exe, "one", d["op"], str(d["p"]), str(d["a"]), str(d.get("b", 0))], stdout=subprocess.PIPE, text=True)
        return [l for l in p.stdout.splitlines() if l.startswith("FAIL ")]
    return eval_case(case)


def finish(merged, cov):
    need = ["binop:add", "binop:subtract", "binop:multiply", "unop:inverse", "reduce:montgomery_reduce", "bigint:add", "fr-sqrt-2adic"]
    missing = [n for n in need if not merged.outcomes.get(n)]
    if missing:
        return "expected outcome classes never exercised: %s" % missing
    if not merged.extra.get("w8_evaluations"):
        return "engine S did not run"
    cov["states"] = merged.extra["w8_evaluations"]
    cov["transitions"] = merged.evaluations
    cov["traces_validated_against_impl"] = merged.evaluations - merged.extra["w8_evaluations"]
    cov["explanation"] = ("states = inputs of the 8-bit-word instance run exhaustively (engine S); traces_validated_against_impl = "
                          "Python-model rows replayed on the real 381/255-bit implementation on 4 back ends")
    return None
