"""C12 - WKD-IBE: keys open only matching ciphertexts; hidden slots cannot be filled (engine B, negative space)."""
import itertools

from vlib import build, ffi, ref, wk
from checks import c11

PROPERTY = "C12"
LEVEL = "model_checking"
RULE = ("on the state graph of C11 (every reachable abstract key state, rebuilt by replaying its witness history): for EVERY ciphertext attribute list A of the "
        "alphabet (per slot absent / v1 / v2 / v1 given unreduced as r+v1 / v1 with omitFromKeys set - a flag encryption must ignore; plus 0, 2^256-1 and marked v2 in the thorough tier) decrypt(encrypt(m,A),key) == m IFF A and the key's fixed pattern are equal as "
        "maps slot -> non-zero value mod r; from EVERY state with a hidden slot i, EVERY list that illegally gives slot i a value is pushed through qualifykey, "
        "nondelegable_qualifykey and adjust_nondelegable and the resulting key must not decrypt any ciphertext in which slot i is set - also when slot i was hidden "
        "by an adjust_nondelegable step (hidden entry with id 0 or with a non-zero id) rather than by a qualification; each single-component "
        "ciphertext modification (a*e, b+G2, c+G1) must change the decryption result. state = (key state, A); non-trivial = A non-empty")
ASSUMPTIONS = ["a value that is 0 mod r contributes the neutral element, so 'absent' and '0' are the same ciphertext pattern",
               "inequality of decryption results is exact for the enumerated (deterministic) instances; a coincidence has probability ~2^-255"]


def ct_lists(l, tier):
    # "r+v1" is v1 given unreduced; wk.MARK + "v1" is v1 with omitFromKeys set, which encryption must ignore
    names = [None, "v1", "v2", "r+v1", wk.MARK + "v1", "sp"] + (["0", "max", wk.MARK + "v2"] if tier == "thorough" else [])
    out = []
    for combo in itertools.product(names, repeat=l):
        out.append([[i, c] for i, c in enumerate(combo) if c is not None])
    return out


def as_map(pairs, vals):
    m = {}
    for i, c in pairs:
        v = wk.entry_value(c, vals) % ref.r
        if v:
            m[i] = v
    return m


def name_of(s, vals):
    for n in ("v1", "v2", "1", "max", "r+v1", "sp"):
        if vals[n] % ref.r == s:
            return n
    raise KeyError(s)


def key_map(pattern):
    return {i: s for i, s in enumerate(pattern) if s not in (wk.FREE, wk.HID)}


def eval_case(case):
    W = c11.world(case["cfg"], case["l"], case["sig"], case["seed"])
    L = W.L
    key, state = W.replay(case["history"])
    pat = state[1]
    msgs = []
    m = W.messages()[1]
    sub = case["sub"]
    if sub == "match":
        A = case["A"]
        pairs = [(i, wk.entry_value(c, W.vals), wk.is_hidden(c)) for i, c in A]
        ct = W.encrypt(m, pairs)
        ok = W.decrypt(ct, key) == m
        should = as_map(A, W.vals) == key_map(pat)
        if ok != should:
            msgs.append("key %s %s a ciphertext for %s" % (wk.pat_str(pat), "opens" if ok else "fails to open", A))
        if should and case.get("tamper"):
            n = W.N
            one_g1 = L.const("g1_one", n.sz["g1"])
            one_g2 = L.const("g2_one", n.sz["g2"])
            e = L.const("generator_pairing", 576)
            for comp in ("a", "b", "c"):
                ct2 = L.buf(n.sz["wk_ciphertext"], ct.raw)
                o = n.off["wk_ciphertext." + comp]
                if comp == "a":
                    new = L.out("embedded_pairing_bls12_381_gt_add", 576, ct.raw[o:o + 576], e)
                elif comp == "b":
                    new = L.out("embedded_pairing_bls12_381_g2_add", n.sz["g2"], ct.raw[o:o + n.sz["g2"]], one_g2)
                else:
                    new = L.out("embedded_pairing_bls12_381_g1_add", n.sz["g1"], ct.raw[o:o + n.sz["g1"]], one_g1)
                ffi.ctypes.memmove(ffi.ctypes.byref(ct2, o), new, len(new))
                if W.decrypt(ct2, key) == m:
                    msgs.append("modifying ciphertext component %s alone does not change the decryption result" % comp)
        return msgs
    if sub == "fill":
        # illegal list: gives hidden slot i a value
        Lill = case["list"]
        i = case["slot"]
        via = case["via"]
        if case.get("hide"):
            # the slot was hidden by an ADJUSTMENT of a non-delegable key (parent -> NDQ(from) -> adjust to `to`, which hides slot i)
            key = W.apply(key, ["adjust", case["hide"][0], case["hide"][1]])
            pat = wk.model_qualify(pat, case["hide"][1], W.vals)
            assert pat[i] == wk.HID
        try:
            if via == "adjust":
                new = W.apply(key, ["adjust", case["from"], Lill])
            else:
                new = W.apply(key, [via, Lill])
        except Exception as e:      # noqa
            return ["harness error: %r" % (e,)]
        for A in ct_lists(W.l, "quick"):
            if not any(j == i for j, _ in A):
                continue
            pairs = [(j, wk.entry_value(c, W.vals), wk.is_hidden(c)) for j, c in A]
            ct = W.encrypt(m, pairs)
            if W.decrypt(ct, new) == m:
                msgs.append("a key derived from %s through %s(%s) opens a ciphertext with hidden slot %d set (%s)" % (wk.pat_str(pat), via, Lill["e"], i, A))
        return msgs
    raise ValueError(sub)


def eval_large(case):
    """l = 65: a slot at a word-boundary index is hidden (or fixed) at key generation; filling it through qualifykey / nondelegable_qualifykey
    must not yield a key that opens a ciphertext with that slot set; ciphertexts for long lists open iff they equal the key's pattern"""
    W = c11.world(case["cfg"], wk.LONG_L, False, case["seed"])
    i = case["slot"]
    m = W.messages()[1]
    msgs = []
    for hidc in (wk.HID, wk.MARK + "v1"):
        key, state = W.replay([["keygen", {"e": sorted([[0, "v1"], [i, hidc]]), "omit": False}]])
        Lill = {"e": sorted([[0, "v1"], [i, "v2"]]), "omit": False}
        for via in ("qualify", "ndqualify"):
            new = W.apply(key, [via, Lill])
            ct = W.encrypt(m, [(0, W.vals["v1"]), (i, W.vals["v2"])])
            if W.decrypt(ct, new) == m:
                msgs.append("l=65: a key with slot %d hidden, pushed through %s with a value for that slot, opens a ciphertext with the slot set" % (i, via))
    # long ciphertext lists against a key for the same long pattern, and with one entry changed / dropped
    n = case["n"]
    F = wk.long_list(n)
    key, state = W.replay([["keygen", F]])
    pairs = [(j, W.vals[c]) for j, c in F["e"]]
    if W.decrypt(W.encrypt(m, pairs), key) != m:
        msgs.append("l=65: key for a pattern of %d fixed slots does not open its own ciphertext" % n)
    for pos in (0, n // 2, n - 1):
        bad = list(pairs)
        bad[pos] = (bad[pos][0], (bad[pos][1] + 1) % ref.r)
        if W.decrypt(W.encrypt(m, bad), key) == m:
            msgs.append("l=65: key for %d fixed slots opens a ciphertext whose entry %d differs" % (n, pos))
    if W.decrypt(W.encrypt(m, pairs[:-1]), key) == m:
        msgs.append("l=65: key for %d fixed slots opens a ciphertext without the last entry" % n)
    return msgs


def shards(ctx):
    for c in ("asm", "c64", "c32"):
        build.build(c)
    U = c11.universe(ctx)
    vals = wk.values(ctx.seed)
    reach = wk.reachable(U["l"], U["names"], vals, witnesses=1)
    out = []
    for st, hists in sorted(reach.items(), key=lambda kv: str(kv[0])):
        out.append({"state": [st[0], list(st[1])], "history": hists[0]})
    ctx.extra["abstract_states"] = len(reach)
    # the other compilers / optimisation levels / ABI choices see every 4th state as well
    for k, (st, hists) in enumerate(sorted(reach.items(), key=lambda kv: str(kv[0]))):
        if k % 4 in (1, 3):
            out.append({"state": [st[0], list(st[1])], "history": hists[0], "cfg": "c64" if k % 4 == 1 else "c32"})
    slots = [31, 32, 33, 63, 64] if ctx.tier == "quick" else [7, 8, 15, 16, 17, 31, 32, 33, 62, 63, 64]
    ns = [5, 9, 17, 33, 65] if ctx.tier == "quick" else wk.LONG_N
    for k, i in enumerate(slots):
        out.append({"sub": "large", "slot": i, "n": ns[k % len(ns)]})
    return out


def run_shard(ctx, shard):
    if shard.get("sub") == "large":
        case = {"sub": "large", "cfg": "asm", "seed": ctx.seed, "slot": shard["slot"], "n": shard["n"]}
        msgs = eval_large(case)
        ctx.ok(True, "large-l")
        if msgs:
            ctx.fail(case, "; ".join(msgs[:3]), sig="large-l")
        return
    U = c11.universe(ctx)
    vals = wk.values(ctx.seed)
    state = (shard["state"][0], tuple(shard["state"][1]))
    pat = state[1]
    base = {"cfg": shard.get("cfg", "asm"), "l": U["l"], "sig": False, "seed": ctx.seed, "history": shard["history"]}

    def emit(case, nontrivial, outcome):
        msgs = eval_case(case)
        ctx.ok(nontrivial, outcome)
        ctx.sample({k: v for k, v in case.items() if k != "history"}, limit=1)
        if msgs:
            ctx.fail(case, "; ".join(msgs[:3]), sig=outcome.split(":")[0])

    for A in ct_lists(U["l"], ctx.tier):
        should = as_map(A, vals) == key_map(pat)
        emit(dict(base, sub="match", A=A, tamper=True), bool(A), "match:%s" % ("equal" if should else "different"))
        if ctx.out_of_time():
            return
    # slots that an adjustment hides: from every state with a free slot i, adjust_nondelegable towards a list with a hidden entry on i,
    # then try to give slot i a value through qualifykey / nondelegable_qualifykey on the adjusted key
    free = wk.free_slots(pat)
    if free:
        for i in free:
            for hidc in (wk.HID, wk.MARK + "v1"):
                to = {"e": sorted([[j, name_of(s, vals)] for j, s in enumerate(pat) if s not in (wk.FREE, wk.HID)] + [[i, hidc]]), "omit": False}
                frm = {"e": [[j, c] for j, c in to["e"] if j != i], "omit": False}
                for frm2 in (frm, {"e": sorted(frm["e"] + [[i, "v2"]]), "omit": False}):
                    Lill = {"e": sorted(frm["e"] + [[i, "v1"]]), "omit": False}
                    for via in ("qualify", "ndqualify"):
                        emit(dict(base, sub="fill", list=Lill, slot=i, via=via, hide=[frm2, to]), True, "fill-after-adjust:" + via)
            if ctx.out_of_time():
                return
    hidden = [i for i, s in enumerate(pat) if s == wk.HID]
    if hidden:
        lists = wk.list_alphabet(U["l"], U["names"], omit_flags=(False,))
        for i in hidden:
            for Lill in lists:
                ents = {j: c for j, c in Lill["e"]}
                if ents.get(i) is None or wk.is_hidden(ents.get(i)):
                    continue
                # legal everywhere except slot i
                legal_elsewhere = wk.permitted(tuple(wk.FREE if j == i else s for j, s in enumerate(pat)), Lill, vals)
                if not legal_elsewhere:
                    continue
                for via in ("qualify", "ndqualify"):
                    emit(dict(base, sub="fill", list=Lill, slot=i, via=via), True, "fill:" + via)
                frm = {"e": [[j, c] for j, c in Lill["e"] if j != i], "omit": False}
                if wk.permitted(pat, frm, vals):
                    emit(dict(base, sub="fill", list=Lill, slot=i, via="adjust", **{"from": frm}), True, "fill:adjust")
                if ctx.out_of_time():
                    return


def replay(ctx, case):
    if case.get("sub") == "large":
        return eval_large(case)
    return eval_case(case)


def finish(merged, cov):
    for need in ("match:equal", "match:different", "fill:qualify", "fill:ndqualify", "fill:adjust", "fill-after-adjust:qualify", "large-l"):
        if not merged.outcomes.get(need):
            return "class %s never exercised" % need
    cov["states"] = merged.extra.get("abstract_states", 1)
    cov["transitions"] = merged.evaluations
    cov["traces_validated_against_impl"] = merged.evaluations
    return None
