"""C16 - LQ-IBE: decryption re-derives the encryption key, bound to the identity (engines A + E)."""
import ctypes
import hashlib
import itertools

from vlib import alpha, build, envexp, ffi, ref
from checks import c07

PROPERTY = "C16"
LEVEL = "model_checking"
RULE = ("bounded-exhaustive: identity hashes (boundary / unreduced / top-bit patterns / miss runs / the all-zero hash) x master scalars {1,2,r-1,r,r+1,2^256-1,filler} "
        "(written into the struct and through masterkey_unmarshal) x requested key lengths {0,1,16,32,1000} x every random-stream answer sequence with <= 1 deviation "
        "(<= 2 thorough) in the first 8 digit requests; a recording hash callback captures exactly what encrypt and decrypt feed it. oracle: the two byte strings are "
        "identical and equal compress(Q_id) || compress(rP) || big-endian(e(sQ_id, rP)) recomputed through the library's C++ pairing (and by the Python model with chosen "
        "discrete logs on a subset); keygen = [s]Q_id by Python double-and-add; length and output pointer passed through unchanged; negatives: other identity, other "
        "master scalar (mod r), ciphertext + G2 give different hashed bytes; identity histories: for EVERY ordered pair of identity hashes that differ in one byte "
        "(at byte 0, 7, 8, 9, 23, 24 or 47) the second identity computed right after the first is the model's point of its own 48 bytes. non-trivial = any case")
ASSUMPTIONS = ["single pairings are decided by C01, hash-to-curve by C10", "the hash function is the caller's: only its input and the pass-through of (pointer, length) are checked"]
CONFIGS = ["asm", "c64", "c32"]
X = ref.X_ABS
LENGTHS = [0, 1, 16, 32, 1000]


def id_hashes(seed, tier):
    f = alpha.fillers(seed, "c16id", 3, 2**384)
    out = [b"\x00" * 48, b"\xff" * 48, (ref.q - 1).to_bytes(48, "big"), ref.q.to_bytes(48, "big")]
    out += [v.to_bytes(48, "big") for v in f]
    # identities whose hash is followed by a long run of x-coordinates that are not on the curve (see C10): 19 and 16 increments
    out += [(6000296581).to_bytes(48, "big"), (3000005518).to_bytes(48, "big")]
    if tier == "thorough":
        from checks import c10
        out += [s for s, _ in c10.hash_strings_curve(1, seed, "quick")][:12]
    return alpha.dedup(out)


def master_scalars(seed):
    return [1, 2, ref.r - 1, ref.r, ref.r + 1, 2**256 - 1, alpha.filler(seed, "c16s", 0, 255) % ref.r]


class Recorder:
    def __init__(self):
        self.calls = []
        self.cb = ffi.HASH_T(self._cb)

    def _cb(self, out, outlen, inp, inlen):
        data = ctypes.string_at(inp, inlen)
        self.calls.append((out, outlen, data))
        fill = hashlib.shake_256(data).digest(outlen) if outlen else b""
        if outlen:
            ctypes.memmove(out, fill, outlen)


def eval_case(case):
    L = ffi.lib(case["cfg"])
    seed = case["seed"]
    msgs = []
    idh = bytes.fromhex(case["idhash"])
    s = int(case["s"], 16)
    n = case["len"]
    answers = [int(t, 16) for t in case["answers"]]
    default = int(case["default"], 16)
    gamma = alpha.fillers(seed, "c16g", 1, ref.r)[0]
    # params with a known generator p = [gamma]G2 and sp = [s]p computed by the library from the master scalar
    Pp = ref.pt_mul(ref.G2_GEN, gamma, 2)
    params = L.buf(L.size["lq_params"])
    # every second case hands the generator over in a non-normalised Jacobian representation (parameters assembled with the raw group
    # interface - a distributed key generation, say - are not normalised; sp below never is)
    zz = alpha.fillers(seed, "c16z", 2, ref.q)
    p_native = L.proj(Pp, 2, z=(zz[0], zz[1])) if (s + n) % 2 else L.proj(Pp, 2)
    msk = L.buf(L.size["lq_masterkey"], L.bi(s, 256))
    if case.get("via_unmarshal"):
        msk = L.buf(L.size["lq_masterkey"], b"\xCD" * L.size["lq_masterkey"])
        raw = s.to_bytes(32, "little")
        ok = L.call("embedded_pairing_lqibe_masterkey_unmarshal", msk, raw, 1, 1) & 1
        if not ok:
            msgs.append("masterkey_unmarshal rejected a scalar")
    sp_native = L.out("embedded_pairing_bls12_381_g2_multiply", L.size["g2"], p_native, L.bi(s, 256))
    ctypes.memmove(params, p_native, len(p_native))
    ctypes.memmove(ctypes.byref(params, L.size["g2"]), sp_native, len(sp_native))
    ident = L.buf(L.size["lq_id"])
    L.call("embedded_pairing_lqibe_compute_id_from_hash", ident, idh)
    Q = L.unaff(ident.raw, 1)
    sk = L.buf(L.size["lq_secretkey"])
    L.call("embedded_pairing_lqibe_keygen", sk, msk, ident)
    Qm = id_model(idh)          # cached per hash: cofactor * (first curve point at or after the hash)
    if Q != Qm:
        msgs.append("identity point differs from the model")
    if case.get("python") or Q != Qm:
        if L.unaff(sk.raw, 1) != ref.pt_mul(Qm, s % ref.r, 1):
            msgs.append("keygen is not [s]Q_id")
    stream = iter(answers)
    reqs = []

    def answer(k):
        reqs.append(k)
        if len(reqs) > 300:
            return ffi.varying_filler(len(reqs), k)
        if k == 8:
            return next(stream, default).to_bytes(8, "little")
        # requests of another size than the digit protocol's 8 bytes: from the same stream, 8 bytes at a time, then a varying filler
        chunks = [next(stream, None) for _ in range((k + 7) // 8)]
        if any(c is None for c in chunks):
            return ffi.varying_filler(len(reqs), k)
        return b"".join(c.to_bytes(8, "little") for c in chunks)[:k]
    rng = L.rng(answer)
    ct = L.buf(L.size["lq_ciphertext"])
    sym_e = ctypes.create_string_buffer(b"\x5C" * (n + 32), n + 32)
    rec_e = Recorder()
    L.call("embedded_pairing_lqibe_encrypt", ct, sym_e, ffi.sz(n), params, ident, rec_e.cb, rng)
    if len(reqs) > 300:
        return ["encrypt did not terminate within the horizon"]
    sym_d = ctypes.create_string_buffer(b"\x5C" * (n + 32), n + 32)
    rec_d = Recorder()
    L.call("embedded_pairing_lqibe_decrypt", sym_d, ffi.sz(n), ct, sk, ident, rec_d.cb)
    if len(rec_e.calls) != 1 or len(rec_d.calls) != 1:
        return ["hash function called %d/%d times" % (len(rec_e.calls), len(rec_d.calls))]
    (oe, le, de), (od, ld, dd) = rec_e.calls[0], rec_d.calls[0]
    if le != n or ld != n:
        msgs.append("requested length %d passed on as %d / %d" % (n, le, ld))
    if oe != ctypes.addressof(sym_e) or od != ctypes.addressof(sym_d):
        msgs.append("output pointer not passed through unchanged")
    if sym_e.raw[n:] != b"\x5C" * 32 or sym_d.raw[n:] != b"\x5C" * 32:
        msgs.append("bytes beyond the requested length were written")
    if de != dd:
        msgs.append("decrypt hashes different bytes than encrypt (lengths %d/%d)" % (len(de), len(dd)))
    if sym_e.raw[:n] != sym_d.raw[:n]:
        msgs.append("derived symmetric keys differ")
    # recompute the hash input independently: compress(Q) || compress(rP) || e(sQ, rP)
    rp_aff = ct.raw[:L.size["g2affine"]]
    # the C++ pairing (decided by C01), not the C wrapper: a defect of the wrapper is C19's business, not this property's
    e = L.out("vk_pairing_affine", 576, sk.raw[:L.size["g1affine"]], rp_aff)
    exp = ref.encode_point(Q, 1, True) + ref.encode_point(L.unaff(rp_aff, 2), 2, True) + ref.f12_bytes(L.unf12(e))
    if de != exp:
        msgs.append("encrypt's hash input is not compress(Q_id)||compress(rP)||e(sQ_id,rP)")
    cs, y, used = c07.model_sampling(answers, default)
    # (the model of which y a stream yields is the digit protocol's; another way of drawing the exponent is held to everything above)
    if case.get("python") and all(k == 8 for k in reqs):
        RP = ref.pt_mul(Pp, y, 2)
        y_alt = c07.model_sampling(answers, default, reverse=True)[1]
        if L.unaff(rp_aff, 2) != RP and L.unaff(rp_aff, 2) == ref.pt_mul(Pp, y_alt, 2):
            y = y_alt           # the digits are drawn most significant first: the property does not fix the order
            RP = ref.pt_mul(Pp, y, 2)
        if L.unaff(rp_aff, 2) != RP:
            msgs.append("ciphertext is not [y]P for the y drawn from the random stream")
        if Q is not None:
            em = ref.pairing(Q, ref.pt_mul(ref.G2_GEN, (s * y * gamma) % ref.r, 2))
            if ref.f12_bytes(em) != de[-576:]:
                msgs.append("hashed pairing value differs from the Python model")
    # negatives
    if case.get("negatives"):
        def dec_bytes(ct_, sk_, id_):
            r_ = Recorder()
            L.call("embedded_pairing_lqibe_decrypt", sym_d, ffi.sz(n), ct_, sk_, id_, r_.cb)
            return r_.calls[0][2]
        other_id = L.buf(L.size["lq_id"])
        L.call("embedded_pairing_lqibe_compute_id_from_hash", other_id, bytes([idh[0] ^ 1]) + idh[1:47] + bytes([idh[47] ^ 0x55]))
        sk_other = L.buf(L.size["lq_secretkey"])
        L.call("embedded_pairing_lqibe_keygen", sk_other, msk, other_id)
        if Q is not None and dec_bytes(ct, sk_other, other_id) == de:
            msgs.append("a secret key for another identity hashes the same bytes")
        msk2 = L.buf(L.size["lq_masterkey"], L.bi((s + 1) % 2**256, 256))
        sk2 = L.buf(L.size["lq_secretkey"])
        L.call("embedded_pairing_lqibe_keygen", sk2, msk2, ident)
        if Q is not None and (s + 1) % ref.r != s % ref.r and dec_bytes(ct, sk2, ident) == de:
            msgs.append("a secret key under another master scalar hashes the same bytes")
        msk3 = L.buf(L.size["lq_masterkey"], L.bi((s + ref.r) % 2**256 if s + ref.r < 2**256 else s - ref.r, 256))
        sk3 = L.buf(L.size["lq_secretkey"])
        L.call("embedded_pairing_lqibe_keygen", sk3, msk3, ident)
        if dec_bytes(ct, sk3, ident) != de:
            msgs.append("master scalars equal mod r give different keys")
        g2proj = L.out("embedded_pairing_bls12_381_g2_from_affine", L.size["g2"], rp_aff)
        g2proj = L.out("embedded_pairing_bls12_381_g2_add", L.size["g2"], g2proj, L.const("g2_one", L.size["g2"]))
        ct2 = L.buf(L.size["lq_ciphertext"], L.out("embedded_pairing_bls12_381_g2affine_from_projective", L.size["g2affine"], g2proj))
        if Q is not None and dec_bytes(ct2, sk, ident) == de:
            msgs.append("a modified ciphertext hashes the same bytes")
    return msgs


def sequences(seed, tier):
    default = alpha.filler(seed, "c16dd", 0, 62) % X
    m = c07.menu(seed)
    seqs = [[]]
    for i in range(8):
        for v in m:
            seqs.append([default] * i + [v])
    if tier == "thorough":
        for i, j in itertools.combinations(range(8), 2):
            for v, w in itertools.product(m, m):
                s = [default] * (j + 1)
                s[i], s[j] = v, w
                seqs.append(s)
    seqs += [[0, 0, X - 1, X - 1], [1, 0, X - 1, X - 1], [0, 0, 0, 0], [X - 1, X - 1, X - 1, X - 1]]
    return default, alpha.dedup(tuple(s) for s in seqs)


def shards(ctx):
    for c in CONFIGS:
        build.build(c)
    return [{"part": k, "parts": 16} for k in range(16)] + [{"sub": "id-history", "cfg": c} for c in CONFIGS]


ID_FLIP_POSITIONS = [0, 7, 8, 9, 23, 24, 47]
_ID_MODEL = {}


def id_menu(seed):
    """identity hashes that agree on long prefixes / suffixes: one base string and the same string with one byte changed at every word
    boundary position (the identity must be bound to ALL 48 bytes)"""
    base = bytearray(alpha.filler(seed, "c16idh", 0, 384).to_bytes(48, "big"))
    base[0] &= 0x0F
    out = [bytes(base)]
    for pos in ID_FLIP_POSITIONS:
        b = bytearray(base)
        b[pos] ^= 0x01 if pos else 0x10
        out.append(bytes(b))
    return out


def id_model(h):
    if h not in _ID_MODEL:
        P, _ = ref.hash_to_curve(h, 1)
        _ID_MODEL[h] = ref.pt_mul(P, ref.G1_COFACTOR, 1)
    return _ID_MODEL[h]


def eval_id_history(case):
    """results depend on the arguments only: compute_id_from_hash(h2) right after compute_id_from_hash(h1), for EVERY ordered pair of the
    menu, is the model's point for h2; keys and hashed bytes for h2 are the ones of h2"""
    L = ffi.lib(case["cfg"])
    msgs = []
    hs = [bytes.fromhex(x) for x in case["pair"]]
    out = None
    # the history is made self-contained: it starts with an identity that shares no byte with the menu, so that whatever an earlier
    # call may have left behind is displaced and a replay sees the same sequence of arguments
    L.out("embedded_pairing_lqibe_compute_id_from_hash", L.size["lq_id"], bytes([0x0A] + [0xA5] * 47))
    for h in hs:
        out = L.out("embedded_pairing_lqibe_compute_id_from_hash", L.size["lq_id"], h)
    if L.unaff(out, 1) != id_model(hs[-1]):
        msgs.append("compute_id_from_hash(%s..) called right after the identity %s.. does not return the point of its own argument" % (hs[-1].hex()[:20], hs[0].hex()[:20]))
    return msgs


def run_shard(ctx, shard):
    seed = ctx.seed
    if shard.get("sub") == "id-history":
        menu = id_menu(seed)
        for h1, h2 in itertools.product(menu, menu):
            case = {"sub": "id-history", "cfg": shard["cfg"], "pair": [h1.hex(), h2.hex()]}
            msgs = eval_id_history(case)
            ctx.ok(h1 != h2, "lq:id-history")
            if msgs:
                ctx.fail(case, msgs[0], sig="lq:id-history")
        return
    ids = id_hashes(seed, ctx.tier)
    ss = master_scalars(seed)
    default, seqs = sequences(seed, ctx.tier)
    cases = []
    # (1) full product ids x scalars x lengths on the default stream; (2) all stream sequences on one (id, scalar) per length
    i = 0
    for idh, s, n in itertools.product(ids, ss, LENGTHS):
        cases.append((idh, s, n, (), i))
        i += 1
    for k, sq in enumerate(seqs):
        cases.append((ids[4 + k % 3], ss[k % len(ss)], LENGTHS[k % len(LENGTHS)], sq, i))
        i += 1
    for idh, s, n, sq, i in cases[shard["part"]::shard["parts"]]:
        case = {"cfg": CONFIGS[i % 3] if i % 2 else "asm", "seed": seed, "idhash": idh.hex(), "s": "%x" % s, "len": n, "answers": ["%x" % v for v in sq], "default": "%x" % default,
                "via_unmarshal": i % 2 == 0, "python": i % 40 == 0, "negatives": True}
        msgs = eval_case(case)
        ctx.ok(True, "lq:%s%s" % ("stream-deviation" if sq else "product", ":identity-point" if idh == b"\x00" * 48 else ""))
        ctx.sample(case, limit=1)
        if msgs:
            ctx.fail(case, "; ".join(msgs[:3]), sig="lq:" + msgs[0][:40])
        if ctx.out_of_time():
            return


def replay(ctx, case):
    if case.get("sub") == "id-history":
        return eval_id_history(case)
    return eval_case(case)


def finish(merged, cov):
    for need in ("lq:product", "lq:stream-deviation", "lq:product:identity-point", "lq:id-history"):
        if not merged.outcomes.get(need):
            return "class %s never exercised" % need
    cov["states"] = merged.evaluations
    cov["transitions"] = merged.evaluations
    cov["traces_validated_against_impl"] = merged.evaluations
    return None
