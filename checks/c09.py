"""C09 - point encodings round-trip; validating decode accepts only canonical encodings (engine A over byte strings)."""
import functools

from vlib import alpha, build, ffi, ref

PROPERTY = "C09"
LEVEL = "model_checking"
RULE = ("bounded-exhaustive over byte strings: for every point of the subgroup alphabet (+ identity) x {G1,G2} x {compressed, uncompressed}: encode vs "
        "model bytes, decode checked/unchecked; for each valid encoding ALL 8 settings of the three flag bits x coordinate variants {as is; each "
        "coordinate component +q when it still fits; an x with no y; the x of a curve point outside the subgroup; uncompressed: -y, y+q, y+1, the point scaled onto an isomorphic curve (u^2 x, u^3 y); compressed G1: crafted x of an order-r point of an isomorphic curve with x^3+4 a non-residue; top bits set in "
        "a non-flag chunk}; identity encodings with one non-zero byte at EVERY position x {0x01,0x80}; all 256 first-byte values over {valid, zero, 0xFF} tails. "
        "oracle: accept <=> bytes == encode(decode(bytes)) and on curve and in the subgroup, computed by the Python model. "
        "distinct by construction; non-trivial = not the all-zero string")
ASSUMPTIONS = ["vlib/ref.py decode_model is the specification of validating decode (canonical = exactly the bytes encode() produces)",
               "the 'greater' flag follows the library's documented order on internal residues (pinned, see C02)"]
CONFIGS = ["asm", "c64", "c32", "o0"]
ENC = {(1, True): "g1c", (1, False): "g1u", (2, True): "g2c", (2, False): "g2u"}
CAPI = {1: "embedded_pairing_bls12_381_g1", 2: "embedded_pairing_bls12_381_g2"}


@functools.lru_cache(maxsize=None)
def model(bs, g, compressed):
    return ref.decode_model(bs, g, compressed)


_sub_cache = {}
_orig_in_subgroup = ref.in_subgroup


def _cached_in_subgroup(P, g):
    k = (P, g)
    if k not in _sub_cache:
        _sub_cache[k] = _orig_in_subgroup(P, g)
    return _sub_cache[k]


ref.in_subgroup = _cached_in_subgroup


def eval_case(case):
    L = ffi.lib(case["cfg"])
    g, comp = case["g"], case["compressed"]
    n = ENC[(g, comp)]
    asize = L.size["g1affine" if g == 1 else "g2affine"]
    msgs = []
    if case["sub"] == "roundtrip":
        P = dec_pt(case["p"], g)
        exp = ref.encode_point(P, g, comp)
        An = L.aff(P, g)
        for fn, args in (("vk_%s_encode" % n, (An,)), (CAPI[g] + "_marshal", (An, 1 if comp else 0))):
            buf = L.buf(len(exp), b"\xCD" * len(exp))
            L.call(fn, buf, *args)
            if buf.raw != exp:
                msgs.append("%s: bytes differ from the model encoding" % fn)
        for checked in (1, 0):
            rv, out = L.outr("vk_%s_decode" % n, asize, exp, checked)
            if rv != 1 or L.unaff(out, g) != P:
                msgs.append("decode(checked=%d) of the library's own encoding: rv=%d / other point" % (checked, rv))
            out2 = L.buf(asize)
            rv2 = L.call(CAPI[g] + "_unmarshal", out2, exp, 1 if comp else 0, checked) & 1
            if rv2 != 1 or L.unaff(out2.raw, g) != P:
                msgs.append("C unmarshal(checked=%d) of the library's own encoding fails" % checked)
            # the destination is re-used: it held the identity, another point, or zero bytes before (decode must set EVERY field)
            G = ref.G1_GEN if g == 1 else ref.G2_GEN
            for prev, what in ((L.aff(None, g), "the identity"), (L.aff(G, g), "another point"), (b"\0" * asize, "zero bytes")):
                dst = L.buf(asize, prev)
                rv3 = L.call("vk_%s_decode" % n, dst, exp, checked) & 1
                if rv3 != 1 or L.unaff(dst.raw, g) != P:
                    msgs.append("decode(checked=%d) into an object that held %s before: rv=%d / other point" % (checked, what, rv3))
                # ... and the decode -> encode chain on that re-used object gives the canonical bytes again (fields the comparison above does not
                # look at - the coordinates of an identity - must not reach the encoder: seeded C09-r7a)
                for fn, args in (("vk_%s_encode" % n, (dst.raw,)), (CAPI[g] + "_marshal", (dst.raw, 1 if comp else 0))):
                    buf = L.buf(len(exp), b"\xCD" * len(exp))
                    L.call(fn, buf, *args)
                    if buf.raw != exp:
                        msgs.append("%s after decode(checked=%d) into an object that held %s before: bytes differ from the canonical encoding" % (fn, checked, what))
        other = ref.encode_point(P, g, not comp)
        rv, out = L.outr("vk_%s_decode" % ENC[(g, not comp)], asize, other, 1)
        if rv != 1 or L.unaff(out, g) != P:
            msgs.append("the two forms do not describe the same point")
        return msgs
    bs = bytes.fromhex(case["bytes"])
    acc, P = model(bs, g, comp)
    rv, out = L.outr("vk_%s_decode" % n, asize, bs, 1)
    out2 = L.buf(asize)
    rv2 = L.call(CAPI[g] + "_unmarshal", out2, bs, 1 if comp else 0, 1) & 1
    if rv != rv2:
        msgs.append("C unmarshal and Encoding::decode disagree")
    if rv != (1 if acc else 0):
        msgs.append("validating decode %s a string the specification %s (%s)" % ("accepts" if rv else "rejects", "rejects" if rv else "accepts", case.get("why", "")))
    elif acc and L.unaff(out, g) != P:
        msgs.append("validating decode accepted but returned another point")
    if acc:
        rvu, outu = L.outr("vk_%s_decode" % n, asize, bs, 0)
        if rvu != 1 or L.unaff(outu, g) != P:
            msgs.append("non-validating decode of a valid encoding differs from validating decode")
    return msgs


def enc_pt(P, g):
    if P is None:
        return None
    return ["%x" % c for c in (P if g == 1 else (P[0][0], P[0][1], P[1][0], P[1][1]))]


def dec_pt(v, g):
    if v is None:
        return None
    v = [int(t, 16) for t in v]
    return (v[0], v[1]) if g == 1 else ((v[0], v[1]), (v[2], v[3]))


SMALL_X_SCALAR = 70368756576603      # [k]G1 has an x coordinate of only 352 bits (found by an offline search over ~10^8 points; re-checked below)


def points(g, seed, tier):
    pts = [P for _, P in alpha.subgroup_points(g, seed, tier)]
    if g == 1:
        # a coordinate with many leading zero bits: x + q then has the same leading word as q itself, the one place where a
        # "compare the leading words first" shortcut of the canonical-form check can go wrong (about 2^-29 of all points)
        S = ref.pt_mul(ref.G1_GEN, SMALL_X_SCALAR, 1)
        assert S[0].bit_length() <= 352 and (S[0] + ref.q) >> 352 == ref.q >> 352
        pts = pts[:2] + [S, ref.pt_neg(S, 1)] + pts[2:]
    else:
        # G2 points with a coordinate component whose leading byte equals the modulus' (0x1a): a canonical-form test that compares the
        # leading bytes first has its tie case there (1.6e-4 of all points per component; found once by a scan over small multiples of
        # the generator, re-verified here). With them the "+ q" and stray-bit variants of the OTHER component of the same coordinate
        # are checked behind a tie of the first one.
        T = [ref.pt_mul(ref.G2_GEN, k, 2) for k in (3327, 381)]
        assert T[0][0][1] >> 376 == 0x1a and T[1][1][1] >> 376 == 0x1a
        pts = pts[:2] + T + pts[2:]
    return pts


_cube_roots = alpha.cube_roots_fq


@functools.lru_cache(maxsize=None)
def isomorphic_curve_x(count=3):
    """Compressed G1 strings built for a decoder that forgets the "x^3 + 4 is a square" test: x' = u^2 x for a subgroup point (x, y) and
    u^6 = -4 / (2 x^3 + 4). Then x'^3 + 4 is a NON-residue, the square-root routine applied to it anyway returns +-u^3 y (its square is
    -(x'^3 + 4)), and (x', +-u^3 y) is the image of (x, y) on the isomorphic curve y^2 = x^3 + 4 u^6: off the curve, yet of order r, so a
    subgroup test that follows (whose formulas do not involve the curve constant) passes.  Returns [x'] - every one must be rejected."""
    q = ref.q
    out = []
    k = 2
    while len(out) < count and k < 400:
        k += 1
        P = ref.pt_mul(ref.G1_GEN, k, 1)
        x = P[0]
        t = (-4) * pow(2 * pow(x, 3, q) + 4, -1, q) % q
        for c in _cube_roots(t):
            if pow(c, (q - 1) // 2, q) != 1:
                continue
            u = pow(c, (q + 1) // 4, q)
            xp = u * u * x % q
            a = (pow(xp, 3, q) + 4) % q
            assert pow(a, (q - 1) // 2, q) == q - 1, "x'^3 + 4 must be a non-residue"
            yy = pow(u, 3, q) * P[1] % q
            assert yy * yy % q == (-a) % q
            out.append(xp)
            break
    return out


def mutations(g, comp, seed, tier):
    """[(bytes, why)] deduplicated"""
    q = ref.q
    n = 48 * g
    out = []
    pts = points(g, seed, tier)
    if tier == "quick":
        pts = pts[:8]
    nosub = (alpha.small_order_points_g1() if g == 1 else alpha.non_subgroup_points_g2())
    # an x with no y
    F = ref.FIELDS[g]
    x = 5 if g == 1 else (5, 1)
    while ref.point_from_x(x, g) is not None:
        x = (x + 1) if g == 1 else (x[0] + 1, x[1])
    no_y = x
    for P in pts:
        E = bytearray(ref.encode_point(P, g, comp))
        variants = [(bytes(E), "valid")]
        if P is not None:
            chunks = [int.from_bytes(E[48 * i:48 * i + 48], "big") & ((1 << 381) - 1 if i == 0 else (1 << 384) - 1) for i in range(len(E) // 48)]
            for i, v in enumerate(chunks):
                if v + q < (1 << 381):
                    c2 = list(chunks)
                    c2[i] = v + q
                    variants.append((b"".join(c.to_bytes(48, "big") for c in c2), "component %d + q" % i))
                if i > 0:
                    for bit in (381, 382, 383):
                        c2 = list(chunks)
                        c2[i] = v | (1 << bit)
                        variants.append((b"".join(c.to_bytes(48, "big") for c in c2), "top bit %d set in chunk %d" % (bit, i)))
            if not comp:
                y = P[1]
                for yy, why in ((F.neg(y), "-y (valid: the opposite point)"), (F.add(y, F.one), "y+1 (off curve)")):
                    variants.append((ref.coord_bytes(P[0], g) + ref.coord_bytes(yy, g), why))
                # the same point on an ISOMORPHIC curve y^2 = x^3 + b u^6: (u^2 x, u^3 y) - what the X, Y of an unnormalised Jacobian triple
                # look like; off the curve but of order r under the (curve-constant-free) group-law formulas
                for u in ((2, 3) if g == 1 else ((2, 0), (1, 1))):
                    u2 = F.mul(u, u)
                    variants.append((ref.coord_bytes(F.mul(u2, P[0]), g) + ref.coord_bytes(F.mul(F.mul(u2, u), y), g), "order-r point of an isomorphic curve (scaled by u = %s)" % (u,)))
        for base, why in variants:
            for flags in range(8):
                b2 = bytearray(base)
                b2[0] = (b2[0] & 0x1F) | (flags << 5)
                out.append((bytes(b2), why + " / flags %d" % flags))
    for N in nosub[:2]:
        for flags in range(8):
            b2 = bytearray(ref.encode_point(N, g, comp))
            b2[0] = (b2[0] & 0x1F) | (flags << 5)
            out.append((bytes(b2), "curve point outside the subgroup / flags %d" % flags))
    for flags in range(8):
        b2 = bytearray(ref.coord_bytes(no_y, g) + (b"" if comp else ref.coord_bytes(F.one, g)))
        b2[0] = (b2[0] & 0x1F) | (flags << 5)
        out.append((bytes(b2), "x without y / flags %d" % flags))
    if g == 1 and comp:
        for xp in isomorphic_curve_x(2 if tier == "quick" else 6):
            for flags in range(8):
                b2 = bytearray(ref.coord_bytes(xp, 1))
                b2[0] = (b2[0] & 0x1F) | (flags << 5)
                out.append((bytes(b2), "x of an order-r point of an isomorphic curve whose x^3 + 4 is a non-residue / flags %d" % flags))
    # malformed identities
    ident = bytearray(ref.encode_point(None, g, comp))
    for pos in range(len(ident)):
        for val in (0x01, 0x80):
            b2 = bytearray(ident)
            b2[pos] ^= val
            out.append((bytes(b2), "identity with byte %d ^ %#x" % (pos, val)))
    # first-byte sweep
    valid_tail = ref.encode_point(pts[1], g, comp)[1:]
    size = len(ident)
    for tail, tname in ((valid_tail, "valid"), (b"\0" * (size - 1), "zero"), (b"\xff" * (size - 1), "0xFF")):
        for fb in range(256):
            out.append((bytes([fb]) + tail, "first byte %#x over %s tail" % (fb, tname)))
    seen = {}
    for b, why in out:
        seen.setdefault(b, why)
    return list(seen.items())


def shards(ctx):
    for c in CONFIGS:
        build.build(c)
    out = []
    for cfg in CONFIGS:
        for g in (1, 2):
            for comp in (True, False):
                out.append({"sub": "roundtrip", "cfg": cfg, "g": g, "compressed": comp})
                parts = 6 if cfg == "asm" else 2
                for k in range(parts):
                    out.append({"sub": "strings", "cfg": cfg, "g": g, "compressed": comp, "part": k, "parts": parts})
    return out


def run_shard(ctx, shard):
    cfg, g, comp = shard["cfg"], shard["g"], shard["compressed"]
    if shard["sub"] == "roundtrip":
        for P in points(g, ctx.seed, ctx.tier):
            case = {"sub": "roundtrip", "cfg": cfg, "g": g, "compressed": comp, "p": enc_pt(P, g)}
            msgs = eval_case(case)
            ctx.ok(P is not None, "roundtrip")
            ctx.sample(case, limit=1)
            if msgs:
                ctx.fail(case, "; ".join(msgs), sig="roundtrip")
        return
    M = mutations(g, comp, ctx.seed, ctx.tier)
    if cfg != "asm":
        M = M[::3]
    for bs, why in M[shard["part"]::shard["parts"]]:
        case = {"sub": "string", "cfg": cfg, "g": g, "compressed": comp, "bytes": bs.hex(), "why": why}
        msgs = eval_case(case)
        acc, _ = model(bs, g, comp)
        klass = why.split(" /")[0]
        if klass.startswith("first byte"):
            klass = "first-byte sweep"
        elif klass.startswith("identity with byte"):
            klass = "malformed identity"
        ctx.ok(any(bs), "string:%s" % ("accept" if acc else "reject:" + klass[:32]))
        ctx.sample(case, limit=1)
        if msgs:
            sig = "decode:noncanonical-accepted" if ("+ q" in why or "top bit" in why) and "accepts" in msgs[0] else "decode:" + msgs[0][:40]
            ctx.fail(case, "; ".join(msgs), sig=sig)
        if ctx.out_of_time():
            return


def replay(ctx, case):
    return eval_case(case)


def finish(merged, cov):
    o = merged.outcomes
    if not o.get("roundtrip") or not o.get("string:accept"):
        return "no accepted strings"
    rej = [k for k in o if k.startswith("string:reject")]
    if len(rej) < 6:
        return "too few rejection classes exercised: %s" % rej
    cov["states"] = merged.evaluations
    cov["transitions"] = merged.evaluations
    cov["traces_validated_against_impl"] = merged.evaluations
    return None
