"""C18 - results do not depend on whether the output object aliases an input (engine A over aliasing patterns)."""
import ctypes
import itertools

from vlib import alpha, build, ffi, ref

PROPERTY = "C18"
LEVEL = "model_checking"
RULE = ("table-driven, exhaustive over aliasing patterns: for every public operation of BigInt, FpBase, Fq, Fr, Fq2, Fq6, Fq12 (incl. cyclotomic, exponentiation, "
        "Frobenius), Affine, Projective/G1/G2 (incl. every scalar-multiplication routine, endomorphism, Frobenius), final_exponentiation and every bls12_381 C "
        "function with a result pointer: ALL set partitions of {output} U {inputs of the output's type that the signature does not mark __restrict} (out=a, out=b, "
        "a=b, out=a=b, ...) x a small operand alphabet chosen to trigger shortcuts (zero, one, identity, equal / opposite points, top-of-range scalars) on 3 back "
        "ends; oracle: same bytes (Jacobian points: same group element) as the call with all objects distinct (whose value is tied to the model by C02-C07). distinct by construction; non-trivial = "
        "pattern other than all-distinct")
ASSUMPTIONS = ["operands marked __restrict in the C++ signatures are exempt (DESIGN.md appendix C); the C interface marks nothing, so all patterns apply there",
               "scheme-level (wkdibe/lqibe) functions are outside this property's layers"]
CONFIGS = ["asm", "c64", "c32", "o0"]


def values(L, typ, seed):
    q, r = ref.q, ref.r
    f = alpha.fillers(seed, "c18" + typ, 12, q)
    if typ.startswith("bi"):
        bits = int(typ[2:])
        return [L.bi(v, bits) for v in (0, 1, 2**bits - 1, alpha.filler(seed, "c18bi", bits, bits), 2**(bits - 1))]
    if typ == "fq":
        return [L.fq(v) for v in (0, 1, q - 1, f[0], (q - 1) // 2)]
    if typ == "fr":
        return [L.fr(v) for v in (0, 1, r - 1, f[0] % r)]
    if typ == "fq2":
        return [L.f2(v) for v in ((0, 0), (1, 0), (0, 1), (f[0], f[1]), (q - 1, 0))]
    if typ == "fq6":
        return [L.f6(v) for v in (ref.F6_ZERO, ref.F6_ONE, ((f[0], f[1]), (f[2], f[3]), (f[4], f[5])), ((0, 0), (f[0], 0), (0, 0)), ((0, 0), (0, 0), (1, 1)))]
    if typ == "fq12":
        a = (((f[0], f[1]), (f[2], f[3]), (f[4], f[5])), ((f[6], f[7]), (f[8], f[9]), (f[10], f[11])))
        e = ref.gen_pairing()
        return [L.f12(v) for v in (ref.F12_ZERO, ref.F12_ONE, a, e, ref.f12_mul(e, e), (ref.F6_ZERO, ref.F6_ONE))]
    if typ in ("g1", "g2"):
        g = int(typ[1])
        G = ref.G1_GEN if g == 1 else ref.G2_GEN
        z = alpha.z_values(g, seed, "thorough")
        k = alpha.fillers(seed, "c18k", 1, r)[0]
        return [L.proj(None, g), L.proj(G, g), L.proj(G, g, z[1]), L.proj(ref.pt_neg(G, g), g), L.proj(ref.pt_add(G, G, g), g, z[2]), L.proj(ref.pt_mul(G, k, g), g, z[3])]
    if typ in ("g1a", "g2a"):
        g = int(typ[1])
        G = ref.G1_GEN if g == 1 else ref.G2_GEN
        return [L.aff(None, g), L.aff(G, g), L.aff(ref.pt_neg(G, g), g), L.aff(ref.pt_add(G, G, g), g)]
    if typ == "px":
        L_ = L
        out = []
        for k in (0, 1, r - 1, alpha.fillers(seed, "c18px", 1, r)[0]):
            out.append(L_.out("vk_powersofx_decompose", L_.size["powersofx"], L_.bi(k, 256)))
        return out
    raise ValueError(typ)


def scalars(L, bits, seed):
    return [L.bi(v, bits) for v in (0, 1, 5, 2**bits - 1, alpha.filler(seed, "c18s", bits, bits))]


def meaningful(L, typ):
    """bytes of the object that carry its value (padding excluded)"""
    if typ == "bi256raw":
        return 32
    if typ.startswith("bi"):
        return int(typ[2:]) // 8
    if typ == "g1a":
        return 97
    if typ == "g2a":
        return 193
    return tsize(L, typ)


def tsize(L, typ):
    if typ.startswith("bi"):
        return L.size["bigint" + typ[2:]]
    return {"fq": 48, "fr": 32, "fq2": 96, "fq6": 288, "fq12": 576, "g1": L.size["g1"], "g2": L.size["g2"], "g1a": L.size["g1affine"], "g2a": L.size["g2affine"],
            "px": L.size["powersofx"]}[typ]


# (function, output type, [input types that may alias (same type as output or each other)], [extra fixed args builder])
# an input type prefixed with '!' is __restrict (never aliased); extras: ('s', bits) scalar, ('u', value) unsigned, ('p', bits) modulus, ('inv', bits)
def table():
    T = []
    for n in (64, 128, 256, 384, 512, 768):
        t = "bi%d" % n
        T += [("vk_%s_add" % t, t, [t, "!" + t], []), ("vk_%s_subtract" % t, t, [t, "!" + t], []), ("vk_%s_shl1" % t, t, [t], []), ("vk_%s_shr1" % t, t, [t], []),
              ("vk_%s_shl3" % t, t, [t], []), ("vk_%s_shr3" % t, t, [t], []), ("vk_%s_shift_left" % t, t, [t], [("u", 37)]), ("vk_%s_shift_right" % t, t, [t], [("u", 37)]),
              ("vk_%s_shift_left" % t, t, [t], [("u", 64)]), ("vk_%s_shift_right" % t, t, [t], [("u", 1)]), ("vk_%s_divx" % t, t, [t], []), ("vk_%s_div10" % t, t, [t], [])]
    for n in (384, 256):
        t = "bi%d" % n
        T += [("vk_fpb%d_add" % n, t, [t, "!" + t], [("p", n)]), ("vk_fpb%d_subtract" % n, t, [t, "!" + t], [("p", n)]), ("vk_fpb%d_multiply2" % n, t, [t], [("p", n)]),
              ("vk_fpb%d_negate" % n, t, [t], [("p", n)]), ("vk_fpb%d_multiply" % n, t, [t, t], [("p", n), ("inv", n)]), ("vk_fpb%d_square" % n, t, [t], [("p", n), ("inv", n)])]
    for f in ("fq", "fr"):
        T += [("vk_%s_add" % f, f, [f, "!" + f], []), ("vk_%s_subtract" % f, f, [f, "!" + f], []), ("vk_%s_multiply2" % f, f, [f], []), ("vk_%s_negate" % f, f, [f], []),
              ("vk_%s_multiply" % f, f, [f, f], []), ("vk_%s_square" % f, f, [f], []), ("vk_%s_inverse" % f, f, [f], []), ("vk_%s_copy" % f, f, [f], []),
              ("vk_%s_exp256" % f, f, [f], [("s", 256)]), ("vk_%s_exp64" % f, f, [f], [("s", 64)])]
    T += [("vk_fq_inverse_member", "fq", ["fq"], []), ("vk_fq_square_root", "fq", ["fq"], [])]
    for f in ("fq2", "fq6", "fq12"):
        T += [("vk_%s_add" % f, f, [f, "!" + f], []), ("vk_%s_subtract" % f, f, [f, "!" + f], []), ("vk_%s_multiply2" % f, f, [f], []), ("vk_%s_negate" % f, f, [f], []),
              ("vk_%s_multiply" % f, f, [f, f], []), ("vk_%s_square" % f, f, [f], []), ("vk_%s_inverse" % f, f, [f], []), ("vk_%s_copy" % f, f, [f], []),
              ("vk_%s_frobenius_map" % f, f, [f], [("u", 1)]), ("vk_%s_frobenius_map" % f, f, [f], [("u", 5)]), ("vk_%s_exp64" % f, f, [f], [("s", 64)])]
    T += [("vk_fq2_multiply_by_nonresidue", "fq2", ["fq2"], []), ("vk_fq6_multiply_by_nonresidue", "fq6", ["fq6"], []),
          ("vk_fq6_multiply_by_c1", "fq6", ["fq6", "!fq2"], []), ("vk_fq6_multiply_by_c01", "fq6", ["fq6", "!fq2", "!fq2"], []),
          ("vk_fq12_multiply_by_c014", "fq12", ["fq12", "!fq2", "!fq2", "!fq2"], []), ("vk_fq12_conjugate", "fq12", ["fq12"], []),
          ("vk_fq12_square_cyclotomic", "fq12", ["fq12"], []), ("vk_fq12_map_to_cyclotomic", "fq12", ["fq12"], []),
          ("vk_fq12_exp_gt_nodiv256", "fq12", ["fq12"], [("s", 256)]), ("vk_fq12_exp_gt_div", "fq12", ["fq12"], [("s", 256)]), ("vk_fq12_exp_gt", "fq12", ["fq12"], [("s", 256)]),
          ("vk_fq12_exp_gt_powers", "fq12", ["fq12", "!px"], []), ("vk_final_exponentiation", "fq12", ["fq12"], []), ("vk_fq12_exp256", "fq12", ["fq12"], [("s", 256)])]
    for g in ("g1", "g2"):
        a = g + "a"
        T += [("vk_%s_multiply2" % g, g, [g], []), ("vk_%s_add" % g, g, [g, "!" + g], []), ("vk_%s_add_mixed" % g, g, [g, "!" + a], []), ("vk_%s_negate" % g, g, [g], []),
              ("vk_%s_copy" % g, g, [g], []), ("vk_%saffine_negate" % g, a, [a], []), ("vk_%saffine_copy" % g, a, [a], [])]
        for w in (64, 128, 256, 512):
            T += [("vk_%s_doubleadd_p_%d" % (g, w), g, [g], [("s", w)]), ("vk_%s_wnaf4_p_%d" % (g, w), g, [g], [("s", w)]), ("vk_%s_wnaf2_p_%d" % (g, w), g, [g], [("s", w)]),
                  ("vk_%s_generic_multiply_p_%d" % (g, w), g, [g], [("s", w)]), ("vk_%s_table4_multiply_%d" % (g, w), g, [g], [("s", w)]),
                  ("vk_%s_wnafscalar4_multiply_%d" % (g, w), g, [g], [("s", w)])]
        T += [("vk_%s_multiply_p_256" % g, g, [g], [("s", 256)])]
        # C interface: nothing is marked, every pattern applies
        c = "embedded_pairing_bls12_381_" + g
        T += [(c + "_add", g, [g, g], []), (c + "_add_mixed", g, [g, "!" + a], []), (c + "_negate", g, [g], []), (c + "_double", g, [g], []),
              (c + "_multiply", g, [g], [("s", 256)]), (c + "affine_negate", a, [a], [])]
    T += [("vk_g1_multiply_p_128", "g1", ["g1"], [("s", 128)]), ("vk_g2_multiply_p_512", "g2", ["g2"], [("s", 512)]), ("vk_g1_endomorphism", "g1", ["g1"], []),
          ("vk_g1_multiply_endomorphism", "g1", ["g1"], [("s", 256)]), ("vk_g2_frobenius_map", "g2", ["g2"], [("u", 1)]), ("vk_g2_multiply_frobenius", "g2", ["g2"], [("s", 256)]),
          ("vk_g2_multiply_frobenius_powers", "g2", ["g2", "!px"], [])]
    c = "embedded_pairing_bls12_381_gt"
    T += [(c + "_add", "fq12", ["fq12", "fq12"], []), (c + "_negate", "fq12", ["fq12"], []), (c + "_double", "fq12", ["fq12"], []), (c + "_multiply", "fq12", ["fq12"], [("s", 256)]),
          ("embedded_pairing_bls12_381_zp_from_hash", "bi256raw", ["bi256raw"], [])]
    return T


def partitions(items):
    """all set partitions of a list"""
    if not items:
        yield []
        return
    first, rest = items[0], items[1:]
    for p in partitions(rest):
        yield [[first]] + p
        for i in range(len(p)):
            yield p[:i] + [[first] + p[i]] + p[i + 1:]


def run_op(L, fn, otyp, ityps, extras, vals, extra_vals, pattern):
    """pattern: list of groups over indices (-1 = output, 0.. = inputs). Returns output bytes (or None if the pattern is not realisable)."""
    osize = 32 if otyp == "bi256raw" else tsize(L, otyp)
    bufs = {}
    for grp in pattern:
        ins = [i for i in grp if i >= 0]
        if ins:
            v0 = vals[ins[0]]
            if any(vals[i] != v0 for i in ins):
                return None
            b = L.buf(len(v0), v0)
        else:
            b = L.buf(osize, b"\xCD" * osize)
        for i in grp:
            bufs[i] = b
    args = [bufs[-1]] + [bufs[i] for i in range(len(ityps))] + extra_vals
    L.f(fn)(*args)
    return bufs[-1].raw[:meaningful(L, otyp)]


HASH_FNS = [("embedded_pairing_bls12_381_g1affine_from_hash", "g1a", 48), ("embedded_pairing_bls12_381_g2affine_from_hash", "g2a", 96),
            ("embedded_pairing_lqibe_compute_id_from_hash", "g1a", 48), ("vk_g1affine_from_hash", "g1a", 48), ("vk_g2affine_from_hash", "g2a", 96)]


def hash_strings(seed, n):
    out = [b"\0" * n, b"\xff" * n, bytes(range(1, n + 1))]
    out += [alpha.filler(seed, "c18hash%d" % n, i, 8 * n).to_bytes(n, "big") for i in range(3)]
    return out


def eval_hash_in_place(case):
    """hash-to-curve with the hash bytes stored at the start of the result object itself (the interface does not forbid it)"""
    L = ffi.lib(case["cfg"])
    fn, otyp = case["fn"], case["otyp"]
    h = bytes.fromhex(case["hash"])
    osize = tsize(L, otyp)
    r0 = L.out(fn, osize, h)[:meaningful(L, otyp)]
    b = L.buf(osize, h + b"\xCD" * (osize - len(h)))
    L.f(fn)(b, b)
    if b.raw[:meaningful(L, otyp)] != r0:
        return ["%s %s with the hash stored in the result object differs from the call with a separate buffer" % (case["cfg"], fn)]
    return []


def eval_case(case):
    if case.get("sub") == "hash-in-place":
        return eval_hash_in_place(case)
    L = ffi.lib(case["cfg"])
    fn, otyp, ityps, extras = case["fn"], case["otyp"], case["ityps"], case["extras"]
    vals = [bytes.fromhex(v) for v in case["vals"]]
    ev = []
    keep = []
    for (k, x), v in zip(extras, case["extra_vals"]):
        if k == "u":
            ev.append(ctypes.c_uint(x))
        elif k == "s":
            b = L.buf(len(bytes.fromhex(v)), bytes.fromhex(v))
            keep.append(b)
            ev.append(b)
        elif k == "p":
            b = L.buf(L.size["bigint%d" % x], L.bi(ref.q if x == 384 else ref.r, x))
            keep.append(b)
            ev.append(b)
        elif k == "inv":
            m = ref.q if x == 384 else ref.r
            ev.append(ffi.u64((-pow(m, -1, 2**64)) % 2**L.word_bits))
    base = [[-1]] + [[i] for i in range(len(ityps))]
    r0 = run_op(L, fn, otyp, ityps, extras, vals, ev, base)
    pattern = case["pattern"]
    r1 = run_op(L, fn, otyp, ityps, extras, vals, ev, pattern)
    if r1 is None:
        return []
    if r0 != r1 and otyp in ("g1", "g2"):
        # a Jacobian result is a group element: another representative of the same point is the same result (what the property asks for);
        # compared by the definition (x/z^2, y/z^3) in the Python model
        g = 1 if otyp == "g1" else 2
        try:
            if L.unproj(r0, g) == L.unproj(r1, g):
                return []
        except Exception:
            pass
    if r0 != r1:
        names = {-1: "out"}
        names.update({i: "abcdefg"[i] for i in range(len(ityps))})
        pat = ", ".join("=".join(names[i] for i in sorted(grp)) for grp in pattern if len(grp) > 1)
        return ["%s %s with %s differs from the call with distinct objects" % (case["cfg"], fn, pat)]
    return []


def cases_for(L, cfg, seed, tier):
    for fn, otyp, n in HASH_FNS:
        if not L.has(fn):
            yield None, "missing:" + fn
            continue
        for h in hash_strings(seed, n):
            yield {"sub": "hash-in-place", "cfg": cfg, "fn": fn, "otyp": otyp, "hash": h.hex()}, None
    for fn, otyp, ityps, extras in table():
        if not L.has(fn):
            yield None, "missing:" + fn
            continue
        free = [i for i, t in enumerate(ityps) if not t.startswith("!")]
        clean = [t.lstrip("!") for t in ityps]
        aliasable = [i for i in free if clean[i] == otyp]
        pats = []
        for p in partitions([-1] + aliasable):
            groups = [g for g in p]
            rest = [[i] for i in range(len(ityps)) if i not in aliasable]
            if all(len(g) == 1 for g in groups):
                continue
            pats.append(groups + rest)
        if not pats:
            continue
        alph = []
        for t in clean:
            if t == "bi256raw":
                alph.append([v.to_bytes(32, "big") for v in (0, 1, ref.r, 2**256 - 1, alpha.filler(seed, "c18h", 0, 256))])
            else:
                alph.append(values(L, t, seed))
        ex_alph = []
        for k, x in extras:
            ex_alph.append(scalars(L, x, seed) if k == "s" else [None])
        limit = 3 if tier == "quick" else 6
        for vals in itertools.product(*[a[:limit + 2] for a in alph]):
            for evs in itertools.product(*[a[:limit] for a in ex_alph]):
                for pat in pats:
                    yield {"cfg": cfg, "fn": fn, "otyp": otyp, "ityps": clean, "extras": [list(e) for e in extras], "vals": [v.hex() for v in vals],
                           "extra_vals": [e.hex() if e is not None else None for e in evs], "pattern": pat}, None


def shards(ctx):
    for c in CONFIGS:
        build.build(c)
    return [{"cfg": c, "part": k, "parts": 6} for c in CONFIGS for k in range(6)]


def run_shard(ctx, shard):
    L = ffi.lib(shard["cfg"])
    i = -1
    for case, note in cases_for(L, shard["cfg"], ctx.seed, ctx.tier):
        i += 1
        if i % shard["parts"] != shard["part"]:
            continue
        if case is None:
            ctx.notes.append(note)
            continue
        msgs = eval_case(case)
        layer = case["fn"].split("_")[1] if case["fn"].startswith("vk_") else "c_api"
        ctx.ok(True, "alias:" + layer)
        ctx.extra["ops:" + case["fn"]] = 1
        ctx.sample(case, limit=1)
        if msgs:
            ctx.fail(case, msgs[0], sig="alias:" + case["fn"])
        if ctx.out_of_time():
            return


def replay(ctx, case):
    return eval_case(case)


def finish(merged, cov):
    ops = [k for k in merged.extra if k.startswith("ops:")]
    cov["operations_covered"] = len(ops)
    if len(ops) < 150:
        return "only %d operations exercised" % len(ops)
    for need in ("alias:fq6", "alias:fq12", "alias:g1", "alias:c_api", "alias:bi384"):
        if not merged.outcomes.get(need):
            return "layer %s never exercised" % need
    cov["states"] = merged.evaluations
    cov["transitions"] = merged.evaluations
    cov["traces_validated_against_impl"] = 0
    return None
