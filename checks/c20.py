"""C20 - the core library is self-contained, stateless and re-entrant (engine P + finite audits)."""
import json
import os
import re
import subprocess
import sys
import tempfile

from vlib import build

PROPERTY = "C20"
LEVEL = "model_checking"
CONFIG_BUILD_FAILURE_IS_VIOLATION = True
RULE = ("(1) symbol audit, exhaustive over object files x configurations {x86-64 asm, portable 64-bit, portable 32-bit, and both portable builds with the embedded "
        "flags -fno-builtin -fno-threadsafe-statics -Os}: every undefined symbol of every object must be a C memory primitive, a compiler arithmetic helper or "
        "defined inside the library; (2) write-protection monitor: after loading, every writable segment of the library image is made read-only and the complete "
        "quick call alphabets of the other properties are executed - any store to library-global state faults; (3) schedule exploration on the real code: 2 real "
        "threads (3 in the thorough tier), each running one operation of a 47-entry menu covering every source file (field, curve, pairing, sampling, WKD-IBE and LQ-IBE operations; the caller's hash callback is an explicit scheduling point), on shared const inputs and distinct outputs; "
        "scheduling points = compiler-inserted function-entry hooks at call depth <= D; ALL schedules with <= B preemptions are executed (B iterated 0,1,2; 3 for every small operation against itself in the thorough tier) and each "
        "thread's output must equal the sequential result and the shared inputs (all passed as const) must be byte-identical afterwards; recorded schedules replay deterministically; (4) free-running ThreadSanitizer pass of the same operation "
        "bodies on 16 threads. states = executions (schedules); transitions = scheduling points visited; non-trivial = schedule with at least one preemption")
ASSUMPTIONS = ["the scheduler serialises threads (sequential consistency); the library contains no atomics or fences, so data races are the only weaker-memory concern "
               "and are covered by (2) and (4)", "preemption inside leaf functions (assembly routines, non-instrumented code) is not explored",
               "write-protection covers the paths executed by the replayed call alphabets"]

ALLOWED = {"memcpy", "memmove", "memset", "memcmp", "bcmp",
           "__udivti3", "__umodti3", "__udivdi3", "__umoddi3", "__divti3", "__modti3", "__multi3", "__muldi3", "__ashlti3", "__lshrti3", "__ashrti3",
           "__ashldi3", "__lshrdi3", "__ashrdi3", "__udivmodti4", "__udivmoddi4", "__stack_chk_fail", "__stack_chk_guard", "_GLOBAL_OFFSET_TABLE_"}
# the integer helpers of libgcc / compiler-rt (division, multiplication, shifts, comparisons, bit counting, byte swaps on 32/64/128-bit integers) and
# the ARM EABI names of the same helpers and of the memory primitives: "compiler arithmetic helpers" and "C memory primitives" in the property's words
ALLOWED_RE = re.compile(r"^(__(u?div|u?mod|u?divmod|mul|ashl|lshr|ashr|clz|ctz|popcount|bswap|ffs|parity|u?cmp|neg|mulo)[sdt]i[234]"
                        r"|__aeabi_(u?idiv|u?idivmod|u?ldivmod|lmul|llsl|llsr|lasr|u?lcmp|mem(cpy|move|set|clr)[48]?))$")
AUDIT_CONFIGS = ["asm", "c64", "c32", "emb64", "emb32"]

MENU_SMALL = ["fq_inverse", "fq_sqrt", "fr_sqrt", "fq2_multiply", "fq2_sqrt", "fq6_multiply", "fq12_multiply", "fq12_inverse", "cyclotomic_square", "g1_add", "g1_double",
              "g2_add", "g2_double", "wnaf_recode", "decompose", "zp_from_hash"]
MENU_MEDIUM = ["g1_multiply_short", "g2_multiply_short", "gt_multiply_short", "g1_encode_decode", "hash_to_g1", "hash_to_id", "g1_random", "lqibe_keygen"]
MENU_LARGE = ["g1_multiply", "g2_multiply", "gt_multiply", "g2_encode_decode", "hash_to_g2", "pairing", "final_exponentiation", "wkdibe_encrypt", "wkdibe_decrypt",
              "g2_random", "gt_random", "prepared_pairing", "g2_prepare", "wkdibe_keygen", "wkdibe_qualifykey", "wkdibe_sign", "wkdibe_verify",
              "lqibe_encrypt0", "lqibe_decrypt0", "wkdibe_params_marshal", "wkdibe_precompute"]
# pairs of the same operation on DIFFERENT inputs (a shared scratch object filled with the same bytes by both threads would go unnoticed)
EXTRA_PAIRS = [("lqibe_encrypt0", "lqibe_encrypt1"), ("lqibe_decrypt0", "lqibe_decrypt1"), ("lqibe_encrypt0", "lqibe_decrypt1"), ("wkdibe_keygen", "wkdibe_qualifykey"),
               ("wkdibe_sign", "wkdibe_keygen"), ("g2_multiply", "wkdibe_keygen"), ("g2_random", "g2_multiply"), ("wkdibe_params_marshal", "wkdibe_precompute"), ("wkdibe_params_marshal", "wkdibe_sign")]
WP_CHECKS_QUICK = ["C01", "C04", "C05", "C07", "C08", "C09", "C10", "C12", "C13", "C16"]
WP_CHECKS_THOROUGH = WP_CHECKS_QUICK + ["C02", "C06", "C11", "C14", "C15", "C18", "C19"]


def sched_exe(cfg="instr"):
    return build.build_exe(cfg, "sched", ["sched.cpp"], with_shim=True)


# ------------------------------------------------------------------------------------------------- (1) symbol audit
def audit(cfg):
    build.build(cfg)
    d = build.config_dir(cfg)
    objs = open(os.path.join(d, "objects.txt")).read().split()
    defined = set()
    undefined = {}
    for o in objs:
        out = subprocess.run(["nm", o], stdout=subprocess.PIPE, text=True, check=True).stdout
        for line in out.splitlines():
            parts = line.split()
            if len(parts) == 2 and parts[0] in ("U", "w"):
                if parts[0] == "U":
                    undefined.setdefault(parts[1], []).append(os.path.basename(o))
            elif len(parts) == 3 and parts[1] not in ("U",):
                defined.add(parts[2])
    bad = {s: files for s, files in undefined.items() if s not in defined and s not in ALLOWED and not ALLOWED_RE.match(s)}
    # thread-local storage is mutable state kept between calls as well (per thread): no object may carry a .tdata / .tbss section
    for o in objs:
        out = subprocess.run(["size", "-A", o], stdout=subprocess.PIPE, text=True).stdout
        for line in out.splitlines():
            parts = line.split()
            if len(parts) >= 2 and parts[0] in (".tbss", ".tdata") and parts[1].isdigit() and int(parts[1]) > 0:
                bad.setdefault("<thread-local storage: %s>" % parts[0], []).append(os.path.basename(o))
    return len(objs), len(undefined), bad


# ------------------------------------------------------------------------------------------------- (2) write-protection monitor
def run_writeprotected(check, deadline):
    out = tempfile.mkdtemp(prefix="c20wp")
    env = dict(os.environ)
    env.update({"VERIF_WRITEPROTECT": "1", "VERIF_OUT": out, "VERIF_DEADLINE": str(deadline), "PYTHONFAULTHANDLER": "1"})
    try:
        p = subprocess.run(["./vcheck", check, "--tier", "quick", "--nproc", "4"], cwd=build.VERIF, stdout=subprocess.PIPE, stderr=subprocess.PIPE, text=True, env=env,
                           errors="replace", timeout=deadline + 900)
        rc, text = p.returncode, p.stdout + p.stderr
    except subprocess.TimeoutExpired:
        rc, text = -1, "timeout"
    evals = 0
    try:
        evals = json.load(open(os.path.join(out, "evidence", check + ".json")))["coverage"]["evaluations"]
    except Exception:
        pass
    for root, _, files in os.walk(out, topdown=False):
        for f in files:
            os.unlink(os.path.join(root, f))
        os.rmdir(root)
    msgs = []
    # only a fault that the classifier in the shim attributes to a protected range is a store to library-global state; violations
    # of the replayed check's own property, its sanity guards, deadline caps or crashes elsewhere are not this property's business
    if "WRITE-PROTECT-FAULT" in text:
        where = [l for l in text.splitlines() if "File \"" in l and "/checks/" in l][:3]
        msgs.append("store to write-protected library memory while running the call alphabet of %s (%s)" % (check, "; ".join(w.strip() for w in where)))
    return evals, msgs


# ------------------------------------------------------------------------------------------------- (3) + (4)
WRAP = 2      # the operation wrapper and the shim / C-API function sit above the first library function


def run_sched(args, cfg="instr", env=None, timeout=3600):
    p = subprocess.run([sched_exe(cfg)] + args, stdout=subprocess.PIPE, stderr=subprocess.PIPE, text=True, env=env, errors="replace", timeout=timeout)
    stat, fails = None, []
    for line in p.stdout.splitlines():
        if line.startswith("STAT "):
            stat = json.loads(line[5:])
        elif line.startswith("FAIL "):
            fails.append(json.loads(line[5:]))
    return p.returncode, stat, fails, p.stdout[-500:] + p.stderr[-1500:]


def eval_case(case):
    sub = case["sub"]
    if sub == "audit":
        n, u, bad = audit(case["cfg"])
        return ["%s: object(s) %s reference external symbol %s" % (case["cfg"], sorted(set(f)), s) for s, f in sorted(bad.items())]
    if sub == "writeprotect":
        return run_writeprotected(case["check"], case.get("deadline", 120))[1]
    if sub == "schedule":
        rc, stat, fails, tail = run_sched(["replay", case["ops"][0], case["ops"][1], str(case["depth"]), str(case["first"]), case["choices"] or "0"])
        if rc not in (0, 1):
            return ["scheduler harness failed: " + tail]
        return ["threads running %s || %s under schedule first=%d choices=%s: output differs from the sequential result" % (case["ops"][0], case["ops"][1], case["first"], case["choices"])] if rc == 1 else []
    if sub == "explore":
        rc, stat, fails, tail = run_sched(["explore", case["ops"][0], case["ops"][1], str(case["bound"]), str(case["depth"])] + (case["ops"][2:3]))
        if rc == 3:
            return ["HARNESS: nondeterministic replay: " + tail]
        if rc not in (0, 1) or stat is None:
            return ["scheduler harness failed: " + tail]
        return ["%d schedule(s) of %s give a result different from sequential execution, e.g. %s" % (stat["failures"], case["ops"], fails[:1])] if stat["failures"] else []
    if sub == "tsan":
        env = dict(os.environ)
        env["TSAN_OPTIONS"] = "halt_on_error=0:report_signal_unsafe=0:exitcode=66"
        rc, stat, fails, tail = run_sched(["free", str(case["rounds"])], cfg="tsan", env=env)
        msgs = []
        if "WARNING: ThreadSanitizer" in tail or rc == 66:
            m = re.findall(r"WARNING: ThreadSanitizer: ([^\n]*)", tail)
            msgs.append("ThreadSanitizer reports in the free-running pass: %s" % (m[:2] or tail[-300:]))
        elif rc != 0 or fails:
            msgs.append("free-running pass: results differ from sequential execution: %s %s" % (fails[:2], tail[-200:] if rc not in (0, 1) else ""))
        return msgs
    raise ValueError(sub)


def calibrate():
    """function entries per call depth for every operation -> {op: [cumulative count up to depth d]}"""
    out = subprocess.run([sched_exe("instr"), "count"], stdout=subprocess.PIPE, text=True, check=True).stdout
    cum = {}
    for line in out.splitlines():
        if line.startswith("COUNT "):
            parts = line.split()
            h = [int(x) for x in parts[2:]]
            c, acc = [0], 0
            for v in h:
                acc += v
                c.append(acc)
            cum[parts[1]] = c
    return cum


def depth_for(cum, op, target):
    """largest depth whose cumulative number of scheduling points stays within target (at least the first library level)"""
    c = cum[op]
    best = 3
    for d in range(3, len(c)):
        if c[d] <= target:
            best = d
        else:
            break
    return best, c[best]


def pairs_for(tier):
    """[(opA, opB, bound, depth)]"""
    out = []
    small, medium, large = MENU_SMALL, MENU_MEDIUM, MENU_LARGE
    everything = small + medium + large
    if tier == "quick":
        # every op against itself (the classic shared-scratch conflict) and a ring of neighbours: bound 2 for small, 1 for medium, 1 at depth 1 for large
        for i, a in enumerate(small):
            out.append((a, a, 2, 2))
            out.append((a, small[(i + 1) % len(small)], 2, 2))
            out.append((a, medium[i % len(medium)], 1, 2))
        for i, a in enumerate(medium):
            out.append((a, a, 1, 2))
            out.append((a, large[i % len(large)], 1, 1))
        for i, a in enumerate(large):
            out.append((a, a, 1, 1))
    else:
        for a in small:
            for b in small:
                out.append((a, b, 2, 2))
            for b in medium + large:
                out.append((a, b, 1, 2))
        for a in medium:
            for b in medium:
                out.append((a, b, 2, 2))
            for b in large:
                out.append((a, b, 1, 2))
        for a in large:
            for b in large:
                out.append((a, b, 1, 1))
            out.append((a, a, 1, 2))
    for a, b in EXTRA_PAIRS:
        out.append((a, b, 1, 1))
    if tier == "thorough":
        # three preemptions for every small operation against itself (the shared-scratch conflict needs the two threads inside the
        # same function; a third switch lets the first thread resume in the middle of the second one's use)
        for a in small:
            out.append((a, a, 3, 2))
    seen = {}
    for t in out:
        seen.setdefault((t[0], t[1], t[2]) if t[2] == 3 else (t[0], t[1]), t)
    return list(seen.values())


def shards(ctx):
    build.build("asm")
    sched_exe("instr")
    sched_exe("tsan")
    out = [{"sub": "audit", "cfg": c} for c in AUDIT_CONFIGS]
    out.append({"sub": "tsan", "rounds": 2 if ctx.tier == "quick" else 10})
    for chk in (WP_CHECKS_QUICK if ctx.tier == "quick" else WP_CHECKS_THOROUGH):
        out.append({"sub": "writeprotect", "check": chk, "deadline": 300 if ctx.tier == "quick" else 900})
    cum = calibrate()
    t2, t1 = (70, 1500) if ctx.tier == "quick" else (160, 6000)
    for a, b, bound, _ in pairs_for(ctx.tier):
        tgt = {1: t1, 2: t2, 3: 36}[bound]
        (da, na), (db, nb) = depth_for(cum, a, tgt), depth_for(cum, b, tgt)
        out.append({"sub": "explore", "ops": [a, b], "bound": bound, "depth": "%d,%d" % (da, db), "points": [na, nb]})
    if ctx.tier == "thorough":
        for i, a in enumerate(MENU_SMALL):
            trio = [a, MENU_SMALL[(i + 3) % len(MENU_SMALL)], MENU_SMALL[(i + 7) % len(MENU_SMALL)]]
            ds = [depth_for(cum, o, 24) for o in trio]
            out.append({"sub": "explore", "ops": trio, "bound": 2, "depth": ",".join(str(d[0]) for d in ds), "points": [d[1] for d in ds]})
    out.sort(key=lambda s: {"writeprotect": 0, "tsan": 1, "explore": 2, "audit": 3}[s["sub"]])
    return out


def run_shard(ctx, shard):
    sub = shard["sub"]
    if sub == "audit":
        n, u, bad = audit(shard["cfg"])
        ctx.ok(True, "audit:" + shard["cfg"], n=n)
        ctx.extra["undefined_symbols_checked"] += u
        ctx.sample({"sub": "audit", "cfg": shard["cfg"], "objects": n, "undefined_symbols": u}, limit=1)
        for s, files in sorted(bad.items()):
            ctx.fail({"sub": "audit", "cfg": shard["cfg"]}, "%s: %s references external symbol %s" % (shard["cfg"], sorted(set(files)), s), sig="audit:" + s)
        return
    if sub == "writeprotect":
        evals, msgs = run_writeprotected(shard["check"], shard["deadline"])
        ctx.ok(True, "writeprotect:" + shard["check"], n=max(evals, 1))
        ctx.extra["writeprotected_evaluations"] += evals
        if msgs:
            ctx.fail({"sub": "writeprotect", "check": shard["check"], "deadline": shard["deadline"]}, msgs[0], sig="writeprotect")
        return
    if sub == "tsan":
        msgs = eval_case(shard)
        ctx.ok(True, "tsan-free-running")
        if msgs:
            ctx.fail(dict(shard), msgs[0], sig="tsan")
        return
    rc, stat, fails, tail = run_sched(["explore", shard["ops"][0], shard["ops"][1], str(shard["bound"]), str(shard["depth"])] + shard["ops"][2:3])
    if rc == 3 or rc not in (0, 1) or stat is None:
        raise RuntimeError("scheduler harness failed (rc=%d): %s" % (rc, tail))
    ctx.ok(False, "schedule:no-preemption", n=stat["executions"] - stat["preempting"])
    ctx.ok(True, "schedule:bound%d" % shard["bound"], n=stat["preempting"])
    ctx.extra["schedules"] += stat["executions"]
    ctx.extra["max_points"] = max(ctx.extra.get("max_points", 0), stat["max_points"])
    ctx.extra["points_total"] += stat.get("total_points", 0)
    ctx.sample({"sub": "explore", "ops": shard["ops"], "bound": shard["bound"], "depth": shard["depth"], "executions": stat["executions"], "max_points": stat["max_points"]}, limit=2)
    for f in fails[:2]:
        ctx.fail({"sub": "schedule", "ops": f["ops"], "depth": shard["depth"], "first": f["first"], "choices": f["choices"]},
                 ("threads %s: an operation modified the shared inputs it takes as const (schedule first=%d choices=%s)" % (f["ops"], f["first"], f["choices"])) if f.get("const_inputs_modified") else
                 "threads %s: output of thread %d differs from the sequential result under schedule first=%d choices=%s" % (f["ops"], f["thread"], f["first"], f["choices"]),
                 sig="schedule:%s" % "+".join(f["ops"]))
    if stat["failures"] and not fails:
        ctx.fail(dict(shard), "schedules with wrong results: %d" % stat["failures"], sig="schedule")


def replay(ctx, case):
    return eval_case(case)


def finish(merged, cov):
    o = merged.outcomes
    for need in ["audit:" + c for c in AUDIT_CONFIGS] + ["tsan-free-running", "schedule:bound2", "schedule:bound1", "writeprotect:C05"] + (["schedule:bound3"] if merged.tier == "thorough" else []):
        if not o.get(need):
            return "class %s never exercised" % need
    cov["states"] = merged.extra.get("schedules", 0)
    cov["transitions"] = merged.extra.get("points_total", 0)
    cov["traces_validated_against_impl"] = merged.extra.get("schedules", 0)
    cov["schedules"] = merged.extra.get("schedules", 0)
    cov["max_scheduling_points_per_execution"] = merged.extra.get("max_points", 0)
    cov["evaluations_under_write_protection"] = merged.extra.get("writeprotected_evaluations", 0)
    cov["undefined_symbols_checked"] = merged.extra.get("undefined_symbols_checked", 0)
    return None
