"""C17 - untrusted bytes and valid calls never cause out-of-bounds access or UB (engine E with sanitizers as monitor)."""
import json
import os
import re
import subprocess
import tempfile

from vlib import build

PROPERTY = "C17"
LEVEL = "fault_enumeration"
CONFIG_BUILD_FAILURE_IS_VIOLATION = False
RULE = ("fault/input enumeration under AddressSanitizer + UndefinedBehaviorSanitizer (alignment, bounds, shifts, bool/enum loads, null): for the two "
        "length-driven parsers (params, secretkey) EVERY buffer length 1..Lmax (marshalled length for l=4 with signatures, +64) x first byte {0,1,0xFF,own} x fill "
        "{zeros, 0xFF, valid object truncated/extended, valid object with each embedded element corrupted in turn} x {compressed, uncompressed} x {checked, unchecked}, "
        "through the Go binding's protocol (set_length -> allocate exactly the reported slots -> unmarshal) with the input in an exact-length heap block; every "
        "accepted object is marshalled again into an exact-size block; fixed-size objects (ciphertext, signature, master key, LQ-IBE objects, G1/G2/GT) x {valid, "
        "zeros, 0xFF, all 256 first bytes, every byte position flipped}; buffer PLACEMENT: every valid object marshalled to and parsed from a buffer that starts at "
        "allocation + off for EVERY off in 0..15 (byte buffers carry no alignment); SIZES: parameter sets fresh from setup and keys for l = 5..257 (every 2^k and "
        "its neighbours) marshalled, parsed and re-marshalled; on x86-64 asm, portable 64-bit and portable 32-bit builds; plus the call sequences of the "
        "other properties' quick checks executed once under the same sanitizers; GUARD PAGES: the call alphabets of the field-tower, point, target-group and pairing "
        "checks re-run on the assembly back end with every argument / result object flush against an inaccessible page (after its end, and before its start), "
        "which also sees accesses made by the hand-written assembly. distinct = distinct (kind, encoding, mode, fill, length, first byte); "
        "non-trivial = length accepted by the length-discovery function or a fixed-size parse")
ASSUMPTIONS = ["ASan/UBSan are the monitor: an access they cannot see (e.g. inside the assembly routines) is not detected here (covered by C03's interpreters and C20's write monitor)",
               "MemorySanitizer is not used (BigInt is a union with deliberately uninitialised wider members)",
               "the Go allocation protocol is re-implemented in C++"]

SAN_CFG = {"asm": "san-asm", "c64": "san-c64", "c32": "san-c32", "g64": "san-g64"}   # g64: g++ -O1 -DNDEBUG with GCC's sanitizer run time (fuzz driver only)
FILLS = ["zeros", "ones", "valid"] + ["corrupt%d" % k for k in range(9)]
SUBCHECKS_QUICK = ["C05", "C09", "C10", "C13", "C15", "C16", "C18"]
SUBCHECKS_THOROUGH = ["C01", "C04", "C05", "C06", "C07", "C08", "C09", "C10", "C11", "C12", "C13", "C14", "C15", "C16", "C18", "C19"]


def fuzz_exe(cfg):
    if cfg == "g64":
        return build.build_exe(SAN_CFG[cfg], "c17_fuzz", ["c17_fuzz.cpp"])
    rt = os.path.dirname(build.asan_runtime())
    return build.build_exe(SAN_CFG[cfg], "c17_fuzz", ["c17_fuzz.cpp"], extra_link=["-Wl,-rpath," + rt])


def san_env():
    env = dict(os.environ)
    env["ASAN_OPTIONS"] = "detect_leaks=0:abort_on_error=0:halt_on_error=1:allocator_may_return_null=1"
    env["UBSAN_OPTIONS"] = "print_stacktrace=1:halt_on_error=1"
    return env


REPORT = re.compile(r"(runtime error: [^\n]*|ERROR: AddressSanitizer[^\n]*|SIGSEGV|SIGBUS)")


def run_fuzz(cfg, kind, comp, checked, fill, start, end=None):
    """returns (stat dict or None, failure dict or None)"""
    exe = fuzz_exe(cfg)
    cmd = [exe, kind, "1" if comp else "0", "1" if checked else "0", fill, str(start)] + ([str(end)] if end is not None else [])
    p = subprocess.run(cmd, stdout=subprocess.PIPE, stderr=subprocess.PIPE, text=True, env=san_env(), errors="replace")
    stat = None
    for line in p.stdout.splitlines():
        if line.startswith("STAT "):
            stat = json.loads(line[5:])
    if p.returncode == 0 and stat is not None:
        return stat, None
    case_line = None
    for line in p.stdout.splitlines():
        if line.startswith("CASE "):
            case_line = line[5:]
    m = REPORT.search(p.stderr) or REPORT.search(p.stdout)
    what = m.group(1) if m else ("exit code %d" % p.returncode)
    frames = [l.strip() for l in p.stderr.splitlines() if l.strip().startswith("#")][:6]
    return stat, {"case_line": case_line or "?", "report": what, "frames": frames}


def classify(f):
    rep = f["report"]
    where = ""
    for fr in f["frames"]:
        m = re.search(r" in ([\w:<>~, ]+)", fr)
        if m and "sanitizer" not in m.group(1) and "interceptor" not in m.group(1):
            where = m.group(1).split("(")[0].strip()[:60]
            break
    kind = "alignment" if "misaligned" in rep else ("asan:" + rep.split(":")[2].strip().split(" ")[0] if "AddressSanitizer" in rep else rep[:40])
    return "%s @ %s" % (kind, where)


def eval_case(case):
    if case["sub"] == "fuzz":
        start = case.get("len", 0)
        stat, fail = run_fuzz(case["cfg"], case["kind"], case["compressed"], case["checked"], case["fill"], start, case.get("len") if "len" in case else None)
        if fail:
            return ["%s: %s (%s)" % (fail["case_line"], fail["report"], "; ".join(fail["frames"][:3]))]
        return []
    if case["sub"] == "subcheck":
        return run_subcheck(case["check"], case.get("deadline", 120))[1]
    if case["sub"] == "guard":
        return run_guarded(case["check"], case["mode"], case.get("deadline", 300))[1]
    raise ValueError(case["sub"])


def run_subcheck(check, deadline):
    out = tempfile.mkdtemp(prefix="c17sub")
    env = san_env()
    env.update({"LD_PRELOAD": build.asan_runtime(), "VERIF_SANITIZE": "1", "VERIF_OUT": out, "VERIF_DEADLINE": str(deadline), "VERIF_NO_KNOWN": "1"})
    try:
        p = subprocess.run(["./vcheck", check, "--tier", "quick"], cwd=build.VERIF, stdout=subprocess.PIPE, stderr=subprocess.PIPE, text=True, env=env, errors="replace", timeout=deadline + 600)
    except subprocess.TimeoutExpired:
        return 0, []
    finally:
        pass
    evals = 0
    try:
        ev = json.load(open(os.path.join(out, "evidence", check + ".json")))
        evals = ev["coverage"]["evaluations"]
    except Exception:
        pass
    for root, _, files in os.walk(out, topdown=False):
        for f in files:
            os.unlink(os.path.join(root, f))
        os.rmdir(root)
    msgs = []
    reports = REPORT.findall(p.stderr) + REPORT.findall(p.stdout)
    # only sanitizer reports count here: the replayed check's own verdict (its property may be violated on this tree), its sanity
    # guards and deadline caps are not this property's business
    if reports:
        msgs.append("%s under ASan+UBSan: %s" % (check, "; ".join(sorted(set(reports))[:3])))
    return evals, msgs


GUARD_CHECKS = ["C04", "C05", "C07", "C08"]


def run_guarded(check, mode, deadline):
    """re-runs another check's quick call alphabet with every argument / result object flush against an inaccessible page (after the object's
    last byte, or before its first): an access beyond the object faults even when hand-written assembly makes it, which ASan / UBSan do not
    instrument.  Only a fatal signal counts (the replayed check's own verdict is not this property's business)."""
    out = tempfile.mkdtemp(prefix="c17guard")
    env = dict(os.environ)
    env.update({"VERIF_GUARD": mode, "VERIF_OUT": out, "VERIF_DEADLINE": str(deadline)})
    try:
        p = subprocess.run(["./vcheck", check, "--tier", "quick", "--nproc", "4"], cwd=build.VERIF, stdout=subprocess.PIPE, stderr=subprocess.PIPE, text=True, env=env,
                           errors="replace", timeout=deadline + 900)
        rc, text = p.returncode, p.stdout + p.stderr
    except subprocess.TimeoutExpired:
        rc, text = 0, ""
    evals = 0
    try:
        evals = json.load(open(os.path.join(out, "evidence", check + ".json")))["coverage"]["evaluations"]
    except Exception:
        pass
    for root, _, files in os.walk(out, topdown=False):
        for f in files:
            os.unlink(os.path.join(root, f))
        os.rmdir(root)
    msgs = []
    crash = [l for l in text.splitlines() if l.startswith("VIOLATION") and "# crash:" in l]
    if crash or rc < 0 or "worker process died" in text:
        msgs.append("with every object placed against an inaccessible page (%s), the call alphabet of %s dies with a fatal signal: an access beyond an argument or result object. %s"
                    % ("after its end" if mode == "end" else "before its start", check, (crash[0].split("# crash:")[1][:300] if crash else "")))
    return evals, msgs


def shards(ctx):
    for c in SAN_CFG:
        fuzz_exe(c)
    out = []
    cfgs = ["asm", "c64", "c32", "g64"]
    for cfg in cfgs:
        for kind in ("params", "secretkey"):
            for comp in (True, False):
                for checked in (True, False):
                    fills = FILLS if (cfg == "asm" or ctx.tier == "thorough") else ["zeros", "valid", "corrupt1", "corrupt4"]
                    for fill in fills:
                        out.append({"sub": "fuzz", "cfg": cfg, "kind": kind, "compressed": comp, "checked": checked, "fill": fill})
        for comp in (True, False):
            for checked in (True, False):
                out.append({"sub": "fuzz", "cfg": cfg, "kind": "fixed", "compressed": comp, "checked": checked, "fill": "alphabet"})
                out.append({"sub": "fuzz", "cfg": cfg, "kind": "placement", "compressed": comp, "checked": checked, "fill": "alphabet"})
                if cfg == "asm" or checked:
                    out.append({"sub": "fuzz", "cfg": cfg, "kind": "large", "compressed": comp, "checked": checked, "fill": "alphabet"})
                if ctx.tier == "thorough" and cfg in ("asm", "g64") and checked:
                    out.append({"sub": "fuzz", "cfg": cfg, "kind": "larger", "compressed": comp, "checked": checked, "fill": "alphabet"})
    for chk in (SUBCHECKS_QUICK if ctx.tier == "quick" else SUBCHECKS_THOROUGH):
        out.append({"sub": "subcheck", "check": chk, "deadline": 300 if ctx.tier == "quick" else 900})
    for chk in GUARD_CHECKS:
        for mode in ("end", "start"):
            out.append({"sub": "guard", "check": chk, "mode": mode, "deadline": 300 if ctx.tier == "quick" else 900})
    # sub-checks are the long poles: start them first
    out.sort(key=lambda s: 0 if s["sub"] in ("subcheck", "guard") else 1)
    return out


def run_shard(ctx, shard):
    if shard["sub"] == "guard":
        evals, msgs = run_guarded(shard["check"], shard["mode"], shard["deadline"])
        ctx.ok(True, "guard-pages:" + shard["mode"], n=max(evals, 1))
        ctx.extra["guarded_evaluations"] += evals
        if msgs:
            ctx.fail(dict(shard), msgs[0], sig="guard:" + shard["check"])
        return
    if shard["sub"] == "subcheck":
        evals, msgs = run_subcheck(shard["check"], shard["deadline"])
        ctx.ok(True, "under-sanitizers:" + shard["check"], n=max(evals, 1))
        ctx.extra["subcheck_evaluations"] += evals
        if msgs:
            ctx.fail({"sub": "subcheck", "check": shard["check"], "deadline": shard["deadline"]}, "; ".join(msgs), sig="subcheck:" + msgs[0].split(":")[-1].strip()[:60])
        return
    cfg, kind = shard["cfg"], shard["kind"]
    start = 0
    guard = 0
    while True:
        stat, fail = run_fuzz(cfg, kind, shard["compressed"], shard["checked"], shard["fill"], start)
        if fail is None:
            if stat:
                ctx.ok(False, "parse:%s:%s" % (kind, shard["fill"].rstrip("0123456789")), n=stat["calls"] - stat["lengths_accepted"] if kind not in ("fixed", "placement", "large", "larger") else 0)
                ctx.ok(True, "parse-accepted-length:%s" % kind, n=stat["lengths_accepted"] if kind not in ("fixed", "placement", "large", "larger") else stat["calls"])
                ctx.extra["objects_accepted"] += stat["objects_accepted"]
                ctx.extra["remarshalled"] += stat["remarshalled"]
                ctx.extra["used_afterwards"] += stat.get("used_afterwards", 0)
            ctx.sample({"sub": "fuzz", "cfg": cfg, "kind": kind, "compressed": shard["compressed"], "checked": shard["checked"], "fill": shard["fill"], "stat": stat}, limit=1)
            return
        # a sanitizer report: record it and resume after the failing case
        line = fail["case_line"]
        case = dict(shard)
        m = re.search(r"len=(\d+)", line) or re.search(r"idx=(\d+)", line)
        if m:
            case["len"] = int(m.group(1))
        ctx.fail(case, "%s: %s | %s" % (line, fail["report"], " <- ".join(fail["frames"][:3])), sig=classify(fail))
        guard += 1
        if not m or guard > 8 or line.startswith("setup"):
            return          # failure while building valid objects: nothing to resume
        start = int(m.group(1)) + 1


def replay(ctx, case):
    return eval_case(case)


def finish(merged, cov):
    for need in ("parse:params:valid", "parse:secretkey:corrupt", "parse-accepted-length:params", "parse-accepted-length:secretkey", "parse-accepted-length:fixed"):
        if not merged.outcomes.get(need) and not merged.nfail:
            return "class %s never exercised" % need
    if not merged.nfail and merged.extra.get("objects_accepted", 0) < 10:
        return "no buffer was ever accepted: the enumeration would be vacuous"
    cov["objects_accepted_and_remarshalled"] = merged.extra.get("remarshalled", 0)
    cov["valid_objects_used_in_further_calls_after_unmarshal"] = merged.extra.get("used_afterwards", 0)
    if not merged.extra.get("used_afterwards", 0):
        return "no unmarshalled valid object was used in further calls"
    cov["evaluations_of_other_checks_under_sanitizers"] = merged.extra.get("subcheck_evaluations", 0)
    cov["evaluations_with_guard_pages"] = merged.extra.get("guarded_evaluations", 0)
    return None
