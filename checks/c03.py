"""C03 - all field-arithmetic back ends compute the same function (engines A differential + I)."""
import itertools
import json
import os
import subprocess
import tempfile

from vlib import alpha, build, ffi, ref
from checks import c02

PROPERTY = "C03"
LEVEL = "model_checking"
CONFIG_BUILD_FAILURE_IS_VIOLATION = True
RULE = ("differential bounded-exhaustive: full Cartesian product of the per-limb alphabet ({0,2^64-1,m_i}^n quick, "
        "{0,1,2^64-1,m_i-1,m_i}^n thorough) over ALL 384-bit (and 256-bit) operands x {add, subtract, shl1, multiply, square, "
        "modular add/subtract/double, Montgomery multiply/square/reduce} x {output distinct, output = first operand} on "
        "{x86-64 BMI2/ADX, x86-64 baseline, portable 64-bit words, portable 32-bit words}: digests per chunk must be equal, a "
        "differing chunk is bisected to one case; the pivot (portable 64-bit) is tied to Python integers on boundary rows; the "
        "AArch64 and ARMv6-M assembly SOURCES are executed by an instruction-level interpreter on boundary alphabets, entered through "
        "the binding (callee + argument registers/stack slot) extracted from the cross-compiled C++ specialisations. "
        "distinct = distinct (op, alias, operand index) by construction; non-trivial = operands not both in {0,1}")
ASSUMPTIONS = ["modular operations are compared on all 384-bit operands for add/subtract/double (the back ends implement the same "
               "single conditional correction) and on products below q*2^384 for Montgomery multiplication/reduction",
               "ARM coverage rests on the interpreters in armsim/ (trusted base); the ARM C++ glue (template specialisations) is compiled "
               "for the target by clang and traced symbolically up to its call; the interpreter then runs the routine the glue calls with "
               "the arguments the glue passes",
               "digest collisions (64-bit) are ignored"]

NATIVE = [("asm", 1), ("asm", 0), ("c64", -1), ("c32", -1)]     # (build config, dispatch mode)
BIN_OPS = ["bi_add", "bi_subtract", "bi_multiply", "fp_add", "fp_subtract", "fp_multiply"]
UN_OPS = ["bi_shl1", "bi_square", "fp_multiply2", "fp_square"]
CHUNK = 4096


def cfgname(c, d):
    return c if d != 0 else "asm-base"


def sweep_exe(cfg):
    return build.build_exe(cfg, "sweep", ["sweep.cpp"])


def operand_file(bits, level, seed):
    m = ref.q if bits == 384 else ref.r
    vals = alpha.limb_product(m, bits // 64, level)
    extra = [2**bits - 1, 2**(bits - 1), 2**(bits - 1) - 1, 2**(bits - 1) + 1, 2**(bits - 2) * 3] + [alpha.filler(seed, "c3op%d" % bits, i, bits) for i in range(4)]
    vals = alpha.dedup(vals + extra)
    d = os.path.join(build.BUILD_ROOT, "cases")
    os.makedirs(d, exist_ok=True)
    path = os.path.join(d, "ops_%d_%d_%d.bin" % (bits, level, seed))
    if not os.path.exists(path):
        tmp = path + ".%d" % os.getpid()
        with open(tmp, "wb") as fh:
            for v in vals:
                fh.write(v.to_bytes(bits // 8, "little"))
        os.replace(tmp, path)
    return path, vals


def unary_operand_file(bits, level, seed):
    """operands of the one-operand operations (shift, double, square): the binary operand set plus the half-modulus limb product"""
    m = ref.q if bits == 384 else ref.r
    _, base = operand_file(bits, level, seed)
    vals = alpha.dedup(base + alpha.half_limb_product(m, bits // 64, rich=(level > 3)) + alpha.sign_limb_product(bits // 64))
    d = os.path.join(build.BUILD_ROOT, "cases")
    path = os.path.join(d, "uops2_%d_%d_%d.bin" % (bits, level, seed))
    if not os.path.exists(path):
        tmp = path + ".%d" % os.getpid()
        with open(tmp, "wb") as fh:
            for v in vals:
                fh.write(v.to_bytes(bits // 8, "little"))
        os.replace(tmp, path)
    return path, vals


def reduce_file(bits, seed, tier):
    m = ref.q if bits == 384 else ref.r
    vals = c02.crafted_reduction_inputs(m, bits, seed, tier)
    d = os.path.join(build.BUILD_ROOT, "cases")
    os.makedirs(d, exist_ok=True)
    path = os.path.join(d, "red_%d_%s_%d.bin" % (bits, tier, seed))
    if not os.path.exists(path):
        tmp = path + ".%d" % os.getpid()
        with open(tmp, "wb") as fh:
            for v in vals:
                fh.write(v.to_bytes(bits // 4, "little"))
        os.replace(tmp, path)
    return path, vals


def run_sweep(cfg, disp, bits, op, path, start, count, chunk, alias):
    exe = sweep_exe(cfg)
    p = subprocess.run([exe, str(bits), op, path, str(start), str(count), str(chunk), "1" if alias else "0", str(disp)],
                       stdout=subprocess.PIPE, stderr=subprocess.PIPE, text=True)
    if p.returncode != 0:
        raise RuntimeError("sweep harness failed (%s %s): rc=%d %s" % (cfg, op, p.returncode, p.stderr[-2000:]))
    return p.stdout


def digests(out):
    return {int(l.split()[1]): l.split()[2] for l in out.splitlines() if l.startswith("H ")}


def level_for(tier, bits):
    if tier == "quick":
        return 3
    return 5 if bits == 384 else 9


# ------------------------------------------------------------------------------------------ spec in Python
def spec(bits, op, a, b):
    """(value, flag) by integer arithmetic; None if the case lies outside the property's domain."""
    m = ref.q if bits == 384 else ref.r
    W = 1 << bits
    if op == "bi_add":
        return (a + b) % W, (a + b) >> bits
    if op == "bi_subtract":
        return (a - b) % W, 1 if a < b else 0
    if op == "bi_shl1":
        return (a << 1) % W, a >> (bits - 1)
    if op == "bi_multiply":
        return a * b, 0
    if op == "bi_square":
        return a * a, 0
    if op == "fp_add":
        s = a + b
        return ((s - m) % W if (s >= m) else s % W), 0      # one conditional subtraction (mod 2^bits)
    if op == "fp_subtract":
        return ((a - b) % W if a >= b else (a - b + m) % W), 0
    if op == "fp_multiply2":
        s = 2 * a
        return ((s - m) % W if s >= m else s), 0
    if op in ("fp_multiply", "fp_square"):
        t = a * (a if op == "fp_square" else b)
        if t >= m * W:
            return None
        return t * pow(W, -1, m) % m, 0
    if op == "montgomery_reduce":
        if a >= m * W:
            return None
        return a * pow(W, -1, m) % m, 0
    raise ValueError(op)


def run_one(cfg, disp, bits, op, a, b, alias):
    """Executes one case through the sweep binary in dump mode; returns (value, flag)."""
    d = tempfile.mkdtemp(prefix="c03one")
    try:
        path = os.path.join(d, "ops.bin")
        esz = bits // 4 if op == "montgomery_reduce" else bits // 8
        with open(path, "wb") as fh:
            fh.write(a.to_bytes(esz, "little"))
            if op not in UN_OPS and op != "montgomery_reduce":
                fh.write(b.to_bytes(esz, "little"))
        idx = 0 if (op in UN_OPS or op == "montgomery_reduce") else 1       # (ops[0], ops[1])
        out = run_sweep(cfg, disp, bits, op, path, idx, 1, 0, alias)
        for l in out.splitlines():
            if l.startswith("R "):
                return int(l.split()[1], 16), int(l.split()[2])
        raise RuntimeError("no result line: " + out)
    finally:
        for f in os.listdir(d):
            os.unlink(os.path.join(d, f))
        os.rmdir(d)


def eval_case(case):
    """case: {sub:'native', bits, op, a, b, alias}: every native back end must equal the Python spec (or, outside the
    spec's domain for modular ops on non-canonical operands, equal the portable 64-bit pivot)."""
    if case["sub"] == "dispatch":
        return eval_dispatch()
    if case["sub"] == "platform":
        return eval_platform()
    if case["sub"] == "arm":
        from armsim import runner
        return runner.eval_case(case)
    if case["sub"] == "arm-xcheck":
        from armsim import runner
        return runner.xcheck_aarch64()[1]
    bits, op, alias = case["bits"], case["op"], case.get("alias", False)
    a = int(case["a"], 16)
    b = int(case.get("b", "0"), 16)
    sp = spec(bits, op, a, b)
    if sp is None:
        return []
    msgs = []
    for cfg, disp in NATIVE:
        got = run_one(cfg, disp, bits, op, a, b, alias)
        if got != sp:
            msgs.append("%s %s<%d>%s(%x, %x): got (%x, %d) expected (%x, %d)" % (cfgname(cfg, disp), op, bits, " [out=a]" if alias else "", a, b, got[0], got[1], sp[0], sp[1]))
    return msgs


CPUID_PROFILES = {}


def cpuid_profiles():
    """engine E over the CPU's answer to CPUID: the unmodified library is loaded under each of the four (BMI2, ADX) combinations
    (harness/cpuid_env.cpp, CPUID faulting); returns (lines, unavailable reason or None)"""
    so = build.build("asm")
    exe = build.build_exe("asm", "cpuid_env", ["cpuid_env.cpp"], link_lib=False, extra_link=["-ldl"])
    nm = subprocess.run(["nm", "-D", so], stdout=subprocess.PIPE, text=True).stdout
    syms = sorted({l.split()[-1] for l in nm.splitlines() if "runtime_" in l and len(l.split()) == 3 and l.split()[1] in "BDbd"})
    p = subprocess.run([exe, so] + syms, stdout=subprocess.PIPE, stderr=subprocess.PIPE, text=True, timeout=120)
    lines = [l for l in p.stdout.splitlines() if l.startswith("PROFILE")]
    if "UNAVAILABLE" in p.stdout or not lines:
        return [], (p.stdout + p.stderr).strip()[:200] or "no output"
    return lines, None


def eval_dispatch():
    """Safety of the run-time selection: a routine that needs BMI2 and ADX may only be selected when the CPU reports both (otherwise the
    first field multiplication raises SIGILL instead of computing what the other back ends compute).  Which back end is selected when
    both are present is the library's choice (all back ends compute the same function) and is not judged."""
    L = ffi.lib("asm")
    flags = ""
    with open("/proc/cpuinfo") as fh:
        for line in fh:
            if line.startswith("flags"):
                flags = line
                break
    both = 1 if (" bmi2" in flags and " adx" in flags) else 0
    msgs = []
    if L.f("vk_cpu_bmi2_adx")() == 1 and not both:
        msgs.append("cpu_supports_bmi2_adx() = 1 but /proc/cpuinfo does not list bmi2 and adx")
    # a fresh process: the selection made by the static initialiser
    code = "import sys; sys.path.insert(0, %r); from vlib import ffi; print(ffi.lib('asm').f('vk_dispatch')(-1))" % build.VERIF
    out = subprocess.run(["python3", "-c", code], stdout=subprocess.PIPE, text=True, env=dict(os.environ)).stdout.strip()
    if out == "1" and not both:
        msgs.append("load-time dispatch selected the BMI2/ADX routines on a CPU without both features")
    CPUID_PROFILES.clear()
    lines, unavailable = cpuid_profiles()
    if unavailable:
        CPUID_PROFILES["unavailable"] = unavailable
    for line in lines:
        f = dict(kv.split("=", 1) for kv in line.split()[1:] if "=" in kv)
        if "CHILD-FAILED" in line:
            msgs.append("loading the library under the CPUID profile bmi2=%s adx=%s failed: %s" % (f.get("bmi2"), f.get("adx"), line))
            continue
        has_both = f.get("bmi2") == "1" and f.get("adx") == "1"
        CPUID_PROFILES["bmi2=%s adx=%s" % (f.get("bmi2"), f.get("adx"))] = {k: v for k, v in f.items() if k not in ("bmi2", "adx")}
        if f.get("probe") == "1" and not has_both:
            msgs.append("CPUID profile bmi2=%s adx=%s: cpu_supports_bmi2_adx() returns 1" % (f["bmi2"], f["adx"]))
        for k, v in f.items():
            if v == "bmi2_adx" and not has_both:
                msgs.append("CPUID profile bmi2=%s adx=%s: %s selects the BMI2/ADX routine" % (f["bmi2"], f["adx"], k))
    return msgs


PLATFORM_NOTE = {}


def eval_platform(groups=None):
    """harness/platform_vectors.cpp (C interface only: scalar multiplications over word-pattern scalars, hashing, sampling from a fixed stream,
    pairings, a WKD-IBE and an LQ-IBE run, everything as marshalled bytes) built natively on three back ends and as a freestanding i386
    executable that really runs under the ILP32 data model: all outputs must be identical line by line."""
    msgs = []
    outs = {}
    for cfg in ("asm", "c64", "c32"):
        exe = build.build_exe(cfg, "platform_vectors", ["platform_vectors.cpp"])
        p = subprocess.run([exe], stdout=subprocess.PIPE, stderr=subprocess.PIPE, text=True, timeout=600)
        if p.returncode != 0 or not p.stdout.endswith("end 0 0000000000000000\n"):
            msgs.append("%s: platform_vectors exits with %d (%s)" % (cfg, p.returncode, p.stderr[-200:]))
            continue
        outs[cfg] = p.stdout.splitlines()
    PLATFORM_NOTE.clear()
    try:
        exe = build.build_ilp32_exe("platform_vectors", "platform_vectors.cpp")
        try:
            p = subprocess.run([exe], stdout=subprocess.PIPE, stderr=subprocess.PIPE, text=True, timeout=900)
        except OSError as e:
            PLATFORM_NOTE["ilp32"] = "this kernel does not execute i386 programs (%s): ILP32 execution skipped" % e
            p = None
        if p is not None:
            if p.returncode != 0 or not p.stdout.endswith("end 0 0000000000000000\n"):
                msgs.append("ilp32-i386: platform_vectors ends with status %d after %d lines (a crash or a call that is wrong only under ILP32)" % (p.returncode, len(p.stdout.splitlines())))
            outs["ilp32-i386"] = p.stdout.splitlines()
            PLATFORM_NOTE["ilp32"] = "executed (%d result lines)" % len(outs["ilp32-i386"])
    except build.BuildError as e:
        # the freestanding i386 build has no C++ standard library and no C library beyond harness/ilp32: sources (or a tool chain) that
        # need more cannot be executed this way - that is a limit of this harness, not a verdict on the library
        PLATFORM_NOTE["ilp32"] = "not built (%s): ILP32 execution skipped" % e.msg.strip().splitlines()[-1][:160]
    ref_cfg = "asm" if "asm" in outs else (sorted(outs)[0] if outs else None)
    for cfg, lines in outs.items():
        if cfg == ref_cfg:
            continue
        ref_lines = outs[ref_cfg]
        diffs = [(a, b) for a, b in zip(ref_lines, lines) if a != b and (groups is None or a.split()[0] in groups)]
        if diffs or (groups is None and len(lines) != len(ref_lines)):
            first = diffs[0] if diffs else ("(%d lines)" % len(ref_lines), "(%d lines)" % len(lines))
            groups = sorted({a.split()[0] for a, _ in diffs})
            msgs.append("%s and %s disagree on %d of %d results (%s); first: '%s' vs '%s'" % (ref_cfg, cfg, len(diffs), len(ref_lines), ", ".join(groups[:6]), first[0], first[1]))
    return msgs


# ------------------------------------------------------------------------------------------ shards
def shards(ctx):
    for c in ("asm", "c64", "c32"):
        sweep_exe(c)
    out = [{"sub": "dispatch"}, {"sub": "platform"}]
    for bits in (384, 256):
        level = level_for(ctx.tier, bits)
        path, vals = operand_file(bits, level, ctx.seed)
        n = len(vals)
        for op in BIN_OPS:
            for alias in (False, True):
                if alias and op == "bi_multiply":
                    continue        # operands of BigInt::multiply are __restrict and of another type than the output
                total = n * n
                parts = 1 if total < 2_000_000 else min(64, total // 4_000_000 + 1)
                per = (total // parts // CHUNK + 1) * CHUNK
                for k in range(parts):
                    out.append({"sub": "sweep", "bits": bits, "op": op, "alias": alias, "start": k * per, "count": min(per, max(0, total - k * per)), "n": n, "level": level})
        for op in UN_OPS:
            for alias in (False, True):
                if alias and op == "bi_square":
                    continue
                nu = len(unary_operand_file(bits, level, ctx.seed)[1])
                out.append({"sub": "sweep", "bits": bits, "op": op, "alias": alias, "start": 0, "count": nu, "n": nu, "level": level})
        out.append({"sub": "sweep", "bits": bits, "op": "montgomery_reduce", "alias": False, "start": 0, "count": -1, "n": 0, "level": level})
        out.append({"sub": "pyrows", "bits": bits})
    from armsim import runner
    out += runner.shards(ctx)
    out.append({"sub": "arm-xcheck"})
    out.append({"sub": "arm-glue"})
    return [s for s in out if s.get("count", 1) != 0]


def run_shard(ctx, shard):
    sub = shard["sub"]
    if sub == "platform":
        msgs = eval_platform()
        ctx.ok(True, "platform-vectors", n=808 * 4)
        ctx.ok(True, "platform-vectors:ilp32:" + ("executed" if PLATFORM_NOTE.get("ilp32", "").startswith("executed") else "not-executed"), n=0)
        if msgs:
            ctx.fail({"sub": "platform"}, "; ".join(msgs[:3]), sig="platform:" + msgs[0].split(":")[0][:30])
        return
    if sub == "dispatch":
        msgs = eval_dispatch()
        ctx.ok(True, "dispatch")
        for k in CPUID_PROFILES:
            ctx.ok(True, "dispatch:cpuid-profile:" + ("unavailable" if k == "unavailable" else k))
        if msgs:
            ctx.fail({"sub": "dispatch"}, "; ".join(msgs), sig="dispatch")
        return
    if sub == "arm":
        from armsim import runner
        return runner.run_shard(ctx, shard)
    if sub == "arm-glue":
        from armsim import runner
        n, info = runner.glue_summary()
        ctx.ok(True, "arm:glue-bindings-traced", n=n)
        for m in info:
            ctx.notes.append("glue (informational; the executed cases decide): " + m[:300])
        return
    if sub == "arm-xcheck":
        from armsim import runner
        n, msgs = runner.xcheck_aarch64()
        ctx.ok(True, "arm:expander-vs-llvm", n=n)
        if msgs:
            ctx.fail({"sub": "arm-xcheck"}, "; ".join(msgs[:3]), sig="arm-xcheck")
        return
    bits = shard["bits"]
    if sub == "pyrows":
        return run_pyrows(ctx, bits)
    op, alias = shard["op"], shard["alias"]
    if op == "montgomery_reduce":
        path, vals = reduce_file(bits, ctx.seed, ctx.tier)
        start, count = 0, len(vals)
        unary = True
    else:
        unary = op in UN_OPS
        path, vals = (unary_operand_file if unary else operand_file)(bits, shard["level"], ctx.seed)
        start, count = shard["start"], shard["count"]
    n = len(vals)
    res = {}
    for cfg, disp in NATIVE:
        res[(cfg, disp)] = digests(run_sweep(cfg, disp, bits, op, path, start, count, CHUNK, alias))
    pivot = res[("c64", -1)]
    ctx.ok(True, "sweep:%s<%d>%s" % (op, bits, ":alias" if alias else ""), n=count * len(NATIVE))
    ctx.sample({"sub": "sweep", "bits": bits, "op": op, "alias": alias, "first_operands": ["%x" % v for v in vals[:3]], "cases": count})
    for key, dg in res.items():
        if dg == pivot:
            continue
        cfg, disp = key
        bad = sorted(k for k in pivot if dg.get(k) != pivot[k])
        for ch in bad[:3]:
            # bisect the chunk: per-case digests
            s0 = ch * CHUNK
            cnt = min(CHUNK, start + count - s0)
            d1 = digests(run_sweep(cfg, disp, bits, op, path, s0, cnt, 1, alias))
            d0 = digests(run_sweep("c64", -1, bits, op, path, s0, cnt, 1, alias))
            for i in sorted(d0):
                if d1.get(i) != d0[i]:
                    a = vals[i] if unary else vals[i // n]
                    b = 0 if unary else vals[i % n]
                    case = {"sub": "native", "bits": bits, "op": op, "alias": alias, "a": "%x" % a, "b": "%x" % b}
                    ctx.fail(case, "%s differs from the portable 64-bit back end on %s<%d>(%x, %x)" % (cfgname(cfg, disp), op, bits, a, b),
                             sig="native:%s:%s<%d>" % (cfgname(cfg, disp), op, bits))
                    break


def run_pyrows(ctx, bits):
    """Python-expected rows: ties every native back end (in particular the pivot) to integer arithmetic."""
    m = ref.q if bits == 384 else ref.r
    W = 1 << bits
    B = alpha.boundary(m, bits, ctx.seed, nfill=3)
    B = alpha.dedup(B[:: max(1, len(B) // (8 if ctx.tier == "quick" else 16))] + [0, 1, m - 1, m, m + 1, W - 1, W - m, 2**(bits - 1)])
    rows = []
    for op in BIN_OPS:
        for a, b in itertools.product(B, B):
            rows.append((op, a, b))
    for op in UN_OPS:
        for a in B:
            rows.append((op, a, 0))
    path, vals = reduce_file(bits, ctx.seed, "quick")
    for T in vals[:: max(1, len(vals) // 60)]:
        rows.append(("montgomery_reduce", T, 0))
    # run all rows per back end in ONE sweep invocation each (dump mode is per case, so use digests of single-case chunks
    # against digests computed from the spec by the same mixing function)
    for op, a, b in rows:
        case = {"sub": "native", "bits": bits, "op": op, "alias": False, "a": "%x" % a, "b": "%x" % b}
        sp = spec(bits, op, a, b)
        if sp is None:
            continue
        # batch evaluation through ffi where possible is equivalent; here we use the fast shim path
        msgs = eval_rows_ffi(bits, op, a, b, sp)
        ctx.ok(a > 1 or b > 1, "pyrow:" + op)
        if msgs:
            ctx.fail(case, "; ".join(msgs), sig="native:%s<%d>" % (op, bits))
        if ctx.out_of_time():
            return


_SHIM = {"bi_add": "vk_bi%d_add", "bi_subtract": "vk_bi%d_subtract", "bi_shl1": "vk_bi%d_shl1", "fp_add": "vk_fpb%d_add",
         "fp_subtract": "vk_fpb%d_subtract", "fp_multiply2": "vk_fpb%d_multiply2", "fp_multiply": "vk_fpb%d_multiply",
         "fp_square": "vk_fpb%d_square", "montgomery_reduce": "vk_fpb%d_montgomery_reduce"}


def eval_rows_ffi(bits, op, a, b, sp):
    """Same operations through the shim (ctypes), all four native back ends."""
    msgs = []
    m = ref.q if bits == 384 else ref.r
    inv = (-pow(m, -1, 2**64)) % 2**64
    nb = bits // 8
    for cfg in c02.CONFIGS:
        L = c02.getlib(cfg)
        bm = L.bi(m, bits)
        flag = 0
        if op == "bi_multiply":
            out = L.out("vk_bi%d_multiply_%d_%d" % (2 * bits, bits, bits), 2 * nb, L.bi(a, bits), L.bi(b, bits))
            got = int.from_bytes(out, "little")
        elif op == "bi_square":
            out = L.out("vk_bi%d_square" % (2 * bits), 2 * nb, L.bi(a, bits))
            got = int.from_bytes(out, "little")
        elif op in ("bi_add", "bi_subtract"):
            flag, out = L.outr(_SHIM[op] % bits, nb, L.bi(a, bits), L.bi(b, bits))
            got = int.from_bytes(out[:nb], "little")
        elif op == "bi_shl1":
            flag, out = L.outr(_SHIM[op] % bits, nb, L.bi(a, bits))
            got = int.from_bytes(out[:nb], "little")
        elif op in ("fp_add", "fp_subtract"):
            out = L.out(_SHIM[op] % bits, nb, L.bi(a, bits), L.bi(b, bits), bm)
            got = int.from_bytes(out[:nb], "little")
        elif op == "fp_multiply2":
            out = L.out(_SHIM[op] % bits, nb, L.bi(a, bits), bm)
            got = int.from_bytes(out[:nb], "little")
        elif op == "fp_multiply":
            out = L.out(_SHIM[op] % bits, nb, L.bi(a, bits), L.bi(b, bits), bm, ffi.u64(inv % 2**L.word_bits))
            got = int.from_bytes(out[:nb], "little")
        elif op == "fp_square":
            out = L.out(_SHIM[op] % bits, nb, L.bi(a, bits), bm, ffi.u64(inv % 2**L.word_bits))
            got = int.from_bytes(out[:nb], "little")
        elif op == "montgomery_reduce":
            bt = L.buf(2 * nb, a.to_bytes(2 * nb, "little"))
            bo = L.buf(nb)
            L.f(_SHIM[op] % bits)(bo, bt, bm, ffi.u64(inv % 2**L.word_bits))
            got = int.from_bytes(bo.raw[:nb], "little")
        if (got, flag) != sp:
            msgs.append("%s %s<%d>(%x, %x): got (%x, %d) expected (%x, %d)" % (cfg, op, bits, a, b, got, flag, sp[0], sp[1]))
    return msgs


def replay(ctx, case):
    return eval_case(case)


def finish(merged, cov):
    need = ["dispatch", "platform-vectors", "sweep:bi_add<384>", "sweep:fp_multiply<384>", "sweep:montgomery_reduce<384>", "pyrow:fp_multiply"]
    missing = [n for n in need if not merged.outcomes.get(n)]
    if missing:
        return "expected outcome classes never exercised: %s" % missing
    if merged.outcomes.get("arm:glue-not-understood"):
        return "the compiled ARM glue has a shape the symbolic tracker cannot follow: %s" % merged.notes[:2]
    if merged.outcomes.get("arm:glue-bindings-traced") != 16:
        return "expected 16 ARM member bindings, traced %s" % merged.outcomes.get("arm:glue-bindings-traced")
    cov["states"] = merged.evaluations
    cov["transitions"] = merged.evaluations
    cov["traces_validated_against_impl"] = sum(v for k, v in merged.outcomes.items() if k.startswith("pyrow:") or k.startswith("arm:"))
    return None
