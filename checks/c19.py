"""C19 - the C interface is a faithful view of the C++ implementation (engine A: finite table + differential)."""
import ctypes
import os
import subprocess

from vlib import alpha, build, ffi, ref, wk
from checks import c11

PROPERTY = "C19"
LEVEL = "model_checking"
CONFIG_BUILD_FAILURE_IS_VIOLATION = True
RULE = ("static part, exhaustive over a finite table: for EVERY structure of the C headers and the C++ type it is cast to - sizeof, alignof, and offsetof + size of "
        "EVERY member on both sides (private cursor members included), and every exported constant (group order, identities, generators, gt generator, five "
        "marshalled sizes, coeffs[68] vs num_coeffs), measured by a generated translation unit compiled under each word-size configuration {x86-64 asm, portable "
        "64-bit, portable 32-bit}. dynamic part: the list of exported C functions is taken from the built library's symbol table (a new or renamed symbol is "
        "noticed); the same struct/member table is cross-compiled for the data models this host cannot run (ARMv6-M and ARMv7-A ILP32, i386 ILP32, AArch64 LP64) "
        "and read back from the object file; EVERY function is called on argument alphabets and must return byte for byte what the corresponding C++ operation returns (same random stream "
        "where one is consumed). distinct by construction; non-trivial = every row")
ASSUMPTIONS = ["the C++ side is decided by C01-C16; this check only compares the two views"]
CONFIGS = ["asm", "c64", "c32", "o0"]


def layout_rows(cfg):
    exe = build.build_exe(cfg, "c19_layout", ["c19_layout.cpp"], extra_flags=["-fno-access-control"])
    out = subprocess.run([exe], stdout=subprocess.PIPE, text=True, check=True).stdout
    return [l.split() for l in out.splitlines() if l]


# data models this host cannot execute: the layout table is cross-compiled (clang needs no sysroot for a freestanding TU) and read back from
# the object file.  ILP32: size_t, long and pointers are 4 bytes - a C struct written with a fixed-width type where the C++ side says size_t
# (or the reverse) agrees on every LP64 configuration and breaks here.
DATA_MODELS = {"armv6m-ilp32": ["-target", "thumbv6m-none-eabi"], "armv7a-ilp32": ["-target", "armv7a-linux-gnueabihf"], "i386-ilp32": ["-target", "i386-linux-gnu"],
               "aarch64-lp64": ["-target", "aarch64-linux-gnu"]}
STUB_STRING_H = """#pragma once
#include <stddef.h>
extern "C" { void* memcpy(void*, const void*, size_t); void* memset(void*, int, size_t); int memcmp(const void*, const void*, size_t);
void* memmove(void*, const void*, size_t); size_t strlen(const char*); }
"""


def layout_rows_static(model):
    """rows [kind, name, v0..v3] of the cross-compiled table, or raises build.BuildError('library') if the headers do not compile for the target"""
    import struct
    import tempfile
    with tempfile.TemporaryDirectory(prefix="c19x") as d:
        os.makedirs(os.path.join(d, "stub"))
        with open(os.path.join(d, "stub", "string.h"), "w") as fh:
            fh.write(STUB_STRING_H)
        obj = os.path.join(d, "l.o")
        common = ["-std=c++17", "-ffreestanding", "-fno-exceptions", "-fno-rtti", "-fno-access-control", "-O0", "-I", os.path.join(d, "stub"),
                  "-I", os.path.join(build.REPO, "include"), "-c", os.path.join(build.VERIF, "harness", "c19_layout_static.cpp")]
        p = subprocess.run(["clang++"] + DATA_MODELS[model] + common + ["-o", obj], stdout=subprocess.PIPE, stderr=subprocess.STDOUT, text=True)
        if p.returncode != 0:
            h = subprocess.run(["clang++"] + common + ["-fsyntax-only"], stdout=subprocess.PIPE, stderr=subprocess.STDOUT, text=True)
            raise build.BuildError("harness" if h.returncode != 0 else "library", "layout table does not compile for %s:\n%s" % (model, p.stdout[-3000:]), model)
        binf = os.path.join(d, "r.bin")
        subprocess.run(["llvm-objcopy", "-O", "binary", "--only-section=.rodata", obj, binf], check=True)
        b = open(binf, "rb").read()
    rows = []
    for i in range(0, len(b) - 91, 92):
        kind = b[i:i + 4].split(b"\0")[0].decode()
        name = b[i + 4:i + 76].split(b"\0")[0].decode()
        v = struct.unpack("<4I", b[i + 76:i + 92])
        if kind == "E":
            break
        # same column order as the executed table: S name csize calign xsize xalign ; O name coff xoff csize xsize
        rows.append([kind, name] + [str(x) for x in v])
    if len(rows) < 90:
        raise build.BuildError("harness", "layout table of %s has only %d rows" % (model, len(rows)), model)
    return rows


def c_functions(L):
    out = subprocess.run(["nm", "-D", "--defined-only", L.path], stdout=subprocess.PIPE, text=True, check=True).stdout
    names = set()
    for line in out.splitlines():
        parts = line.split()
        if len(parts) == 3 and parts[1] == "T" and parts[2].startswith("embedded_pairing_") and "core_arch" not in parts[2]:
            names.add(parts[2][len("embedded_pairing_"):])
    return sorted(names)


class Env:
    def __init__(self, cfg, seed):
        self.L = L = ffi.lib(cfg)
        self.seed = seed
        f = alpha.fillers(seed, "c19", 4, ref.r)
        self.ks = [0, 1, f[0], 2**256 - 1]
        self.pts = {}
        for g in (1, 2):
            G = ref.G1_GEN if g == 1 else ref.G2_GEN
            z = alpha.z_values(g, seed, "thorough")
            P = [None, G, ref.pt_mul(G, f[1], g), ref.pt_neg(G, g)]
            self.pts[g] = dict(aff=[L.aff(p, g) for p in P], proj=[L.proj(None, g), L.proj(G, g), L.proj(P[2], g, z[1]), L.proj(P[3], g, z[2]), L.proj(G, g, z[3])])
        e = ref.gen_pairing()
        self.gts = [L.f12(ref.F12_ONE), L.f12(e), L.f12(ref.f12_pow(e, f[2]))]
        self.W = c11.world(cfg, 2, True, seed)


def same_stream(fn):
    """runs fn(rng) twice with identical deterministic streams, returns both results"""
    return fn(ffi.CounterRng("c19-stream")), fn(ffi.CounterRng("c19-stream"))


def compare_function(E, name):
    """returns (number of argument tuples compared, [messages]); None if the function is not in the table"""
    L = E.L
    C = "embedded_pairing_" + name
    msgs = []
    n = [0]

    def eq(a, b, what=""):
        n[0] += 1
        if a != b:
            msgs.append("%s: C result differs from the C++ operation %s" % (name, what))

    parts = name.split("_")
    if name.startswith("bls12_381_g1") or name.startswith("bls12_381_g2"):
        g = int(name[len("bls12_381_g")])
        gn = "g%d" % g
        op = name[len("bls12_381_g1"):]
        psz, asz = L.size[gn], L.size[gn + "affine"]
        P, A = E.pts[g]["proj"], E.pts[g]["aff"]
        if op == "_add":
            for a in P:
                for b in P:
                    eq(L.out(C, psz, a, b), L.out("vk_%s_add" % gn, psz, a, b))
        elif op == "_add_mixed":
            for a in P:
                for b in A:
                    eq(L.out(C, psz, a, b), L.out("vk_%s_add_mixed" % gn, psz, a, b))
        elif op in ("_negate", "_double"):
            for a in P:
                eq(L.out(C, psz, a), L.out("vk_%s_%s" % (gn, "negate" if op == "_negate" else "multiply2"), psz, a))
        elif op == "_equal":
            for a in P:
                for b in P:
                    eq(L.call(C, a, b) & 1, L.call("vk_%s_equal" % gn, a, b))
        elif op == "_from_affine":
            for a in A:
                eq(L.out(C, psz, a), L.out("vk_%s_from_affine" % gn, psz, a))
        elif op == "_multiply":
            for a in P:
                for k in E.ks:
                    eq(L.out(C, psz, a, L.bi(k, 256)), L.out("vk_%s_multiply_p_256" % gn, psz, a, L.bi(k, 256)))
        elif op == "_multiply_affine":
            for a in A:
                for k in E.ks:
                    eq(L.out(C, psz, a, L.bi(k, 256)), L.out("vk_%s_multiply_a_256" % gn, psz, a, L.bi(k, 256)))
        elif op == "_random":
            r1, r2 = same_stream(lambda rng: L.out(C, psz, rng.cb)), same_stream(lambda rng: L.out("vk_%s_random_generator" % gn, psz, rng.cb))
            eq(r1[0], r2[0])
        elif op in ("_marshal", "_unmarshal"):
            for comp in (1, 0):
                enc = "%s%s" % (gn, "c" if comp else "u")
                size = L.f("vk_%s_size" % enc)()
                for a in A:
                    b1 = L.buf(size)
                    L.call("embedded_pairing_bls12_381_%s_marshal" % gn, b1, a, comp)
                    b2 = L.out("vk_%s_encode" % enc, size, a)
                    if op == "_marshal":
                        eq(b1.raw, b2)
                    else:
                        for checked in (1, 0):
                            o1 = L.buf(asz)
                            rv1 = L.call(C, o1, b2, comp, checked) & 1
                            rv2, o2 = L.outr("vk_%s_decode" % enc, asz, b2, checked)
                            eq((rv1, o1.raw[:96 * g + 1]), (rv2, o2[:96 * g + 1]))
                        bad = bytearray(b2)
                        bad[-1] ^= 1
                        o1 = L.buf(asz)
                        eq(L.call(C, o1, bytes(bad), comp, 1) & 1, L.outr("vk_%s_decode" % enc, asz, bytes(bad), 1)[0])
        elif op == "affine_equal":
            for a in A:
                for b in A:
                    eq(L.call(C, a, b) & 1, L.call("vk_%saffine_equal" % gn, a, b))
        elif op == "affine_from_hash":
            for h in (b"\0" * (48 * g), b"\xff" * (48 * g), bytes(range(48 * g))):
                eq(L.out(C, asz, h)[:96 * g + 1], L.out("vk_%saffine_from_hash" % gn, asz, h)[:96 * g + 1])
        elif op == "affine_from_projective":
            for a in P:
                eq(L.out(C, asz, a)[:96 * g + 1], L.out("vk_%saffine_from_projective" % gn, asz, a)[:96 * g + 1])
        elif op == "affine_negate":
            for a in A:
                eq(L.out(C, asz, a)[:96 * g + 1], L.out("vk_%saffine_negate" % gn, asz, a)[:96 * g + 1])
        elif op == "prepared_is_zero":
            for a in A:
                p = L.out("vk_g2prepared_prepare", L.size["g2prepared"], a)
                eq(L.call(C, p) & 1, L.call("vk_g2prepared_is_zero", p))
        elif op == "prepared_prepare":
            for a in A:
                eq(L.out(C, L.size["g2prepared"], a)[:-8], L.out("vk_g2prepared_prepare", L.size["g2prepared"], a)[:-8])
        else:
            return None
        return n[0], msgs
    if name.startswith("bls12_381_gt_"):
        op = name[len("bls12_381_gt_"):]
        G = E.gts
        if op == "add":
            for a in G:
                for b in G:
                    eq(L.out(C, 576, a, b), L.out("vk_fq12_multiply", 576, a, b))
        elif op == "negate":
            for a in G:
                eq(L.out(C, 576, a), L.out("vk_fq12_inverse", 576, a))
        elif op == "double":
            for a in G:
                eq(L.out(C, 576, a), L.out("vk_fq12_square_cyclotomic", 576, a))
        elif op == "equal":
            for a in G:
                for b in G:
                    eq(L.call(C, a, b) & 1, L.call("vk_fq12_equal", a, b))
        elif op == "multiply":
            for a in G:
                for k in E.ks:
                    eq(L.out(C, 576, a, L.bi(k, 256)), L.out("vk_fq12_exp_gt", 576, a, L.bi(k, 256)))
        elif op == "multiply_random":
            def run(fn):
                def inner(rng):
                    y = L.buf(32)
                    o = L.buf(576)
                    L.call(fn, o, y, G[1], rng.cb)
                    return o.raw + y.raw
                return inner
            eq(same_stream(run(C))[0], same_stream(run("vk_fq12_random_gt"))[0])
        elif op == "marshal":
            for a in G:
                eq(L.out(C, 576, a), L.out("vk_fq12_write_be", 576, a))
        elif op == "unmarshal":
            for a in G:
                w = L.out("vk_fq12_write_be", 576, a)
                eq(L.out(C, 576, w), L.out("vk_fq12_read_be", 576, w))
        else:
            return None
        return n[0], msgs
    if name in ("bls12_381_pairing", "bls12_381_prepared_pairing", "bls12_381_pairing_sum"):
        A1, A2 = E.pts[1]["aff"], E.pts[2]["aff"]
        for a in A1:
            for b in A2:
                if name == "bls12_381_pairing":
                    eq(L.out(C, 576, a, b), L.out("vk_pairing_affine", 576, a, b))
                elif name == "bls12_381_prepared_pairing":
                    p = L.out("vk_g2prepared_prepare", L.size["g2prepared"], b)
                    eq(L.out(C, 576, a, p), L.out("vk_pairing_prepared", 576, a, p))
                else:
                    ab, bb = L.buf(len(a), a), L.buf(len(b), b)
                    pb = L.buf(L.size["g2prepared"], L.out("vk_g2prepared_prepare", L.size["g2prepared"], b))
                    res = []
                    for fn in (C, "vk_pairing_product"):
                        ap, pp = L.buf(L.size["affinepair"]), L.buf(L.size["preparedpair"])
                        L.call("vk_affinepair_init", ap, ab, bb, 0xEE)
                        L.call("vk_preparedpair_init", pp, ab, pb, 0xEE)
                        res.append(L.out(fn, 576, ap, ffi.sz(1), pp, ffi.sz(1)))
                    eq(res[0], res[1])
        if name == "bls12_381_pairing_sum":
            # the pair counts are arguments too: every (n affine, 0), (0, n prepared) for n = 0..44 and a few mixed counts (same arrays to both sides)
            sa, sp = L.size["affinepair"], L.size["preparedpair"]
            nmax = 44
            a_pts = [(A1[i % len(A1)], A2[(i // 2) % len(A2)]) for i in range(nmax)]
            preps = {}
            for counts in [(k, 0) for k in range(nmax + 1)] + [(0, k) for k in range(1, nmax + 1)] + [(3, 20), (20, 3), (21, 40), (40, 40)]:
                res = []
                for fn in (C, "vk_pairing_product"):
                    keep = []
                    abuf = L.buf(max(1, sa * counts[0]))
                    pbuf = L.buf(max(1, sp * counts[1]))
                    for i in range(counts[0]):
                        ab, bb = L.buf(len(a_pts[i][0]), a_pts[i][0]), L.buf(len(a_pts[i][1]), a_pts[i][1])
                        keep += [ab, bb]
                        L.f("vk_affinepair_init")(ctypes.byref(abuf, sa * i), ab, bb, 0xEE)
                    for i in range(counts[1]):
                        a, b = a_pts[(i + 1) % nmax]
                        if b not in preps:
                            preps[b] = L.buf(L.size["g2prepared"], L.out("vk_g2prepared_prepare", L.size["g2prepared"], b))
                        ab = L.buf(len(a), a)
                        keep.append(ab)
                        L.f("vk_preparedpair_init")(ctypes.byref(pbuf, sp * i), ab, preps[b], 0xEE)
                    res.append(L.out(fn, 576, abuf if counts[0] else None, ffi.sz(counts[0]), pbuf if counts[1] else None, ffi.sz(counts[1])))
                eq(res[0], res[1], "pair counts %s" % (counts,))
        return n[0], msgs
    if name == "bls12_381_zp_from_hash":
        for h in (b"\0" * 32, b"\xff" * 32, bytes(range(32)), ref.r.to_bytes(32, "big")):
            b2 = L.buf(32, int.from_bytes(h, "big").to_bytes(32, "little"))
            L.call("vk_fr_hash_reduce", b2)
            eq(L.out(C, 32, h), b2.raw)
        return n[0], msgs
    if name in ("bls12_381_zp_random", "wkdibe_random_zpstar"):
        eq(same_stream(lambda rng: L.out(C, 32, rng.cb))[0], same_stream(lambda rng: L.out("vk_fr_random", 32, rng.cb))[0])
        return n[0], msgs
    if name.startswith("wkdibe_") or name.startswith("lqibe_"):
        return compare_scheme(E, name, eq, n, msgs)
    return None


def compare_scheme(E, name, eq, n, msgs):
    L = E.L
    W = E.W
    N = W.N
    C = "embedded_pairing_" + name
    V = "vk_wk_" + name[len("wkdibe_"):] if name.startswith("wkdibe_") else "vk_lq_" + name[len("lqibe_"):]
    vals = W.vals
    L1 = {"e": [[0, "v1"]], "omit": False}
    L2 = {"e": [[0, "v1"], [1, "v2"]], "omit": False}
    LH = {"e": [[1, wk.HID]], "omit": False}

    def key(hist):
        return W.replay(hist)[0]

    def keybytes(k):
        fs = N.sz["wk_freeslot"]
        return k.buf.raw[:N.off["wk_secretkey.b"]] + k.b.raw[:fs * max(k.l, 0)]

    def two(fn_c, fn_v, build_args, out_of):
        res = []
        for fn in (fn_c, fn_v):
            rng = ffi.CounterRng("c19-scheme")
            res.append(out_of(fn, rng))
        eq(res[0], res[1])

    op = name.split("_", 1)[1]
    if name == "wkdibe_scalar_hash_reduce":
        for v in (0, ref.r, 2**256 - 1, 12345):
            b1, b2 = L.buf(32, L.bi(v, 256)), L.buf(32, L.bi(v, 256))
            L.call(C, b1)
            L.call(V, b2)
            eq(b1.raw, b2.raw)
    elif name in ("wkdibe_random_g1", "wkdibe_random_g2", "wkdibe_random_gt"):
        size = {"g1": N.sz["g1"], "g2": N.sz["g2"], "gt": 576}[name[-2:]]
        two(C, V, None, lambda fn, rng: L.out(fn, size, rng.cb))
    elif name == "wkdibe_setup":
        def run(fn, rng):
            p = wk.Params(N, 2)
            m = L.buf(N.sz["wk_masterkey"])
            L.call(fn, p.buf, m, 2, 1, rng.cb)
            return p.buf.raw[:N.off["wk_params.h"]] + p.h.raw + m.raw
        two(C, V, None, run)
    elif name in ("wkdibe_keygen", "wkdibe_nondelegable_keygen"):
        for Ls in (L1, L2, LH):
            def run(fn, rng, Ls=Ls):
                k = W.newkey(W.l - len(Ls["e"]))
                args = [k.buf, W.params.buf, W.msk, W.al(Ls)] + ([rng.cb] if name == "wkdibe_keygen" else [])
                L.call(fn, *args)
                return keybytes(k)
            two(C, V, None, run)
    elif name in ("wkdibe_qualifykey", "wkdibe_nondelegable_qualifykey"):
        parent = key([["keygen", L1]])
        for Ls in (L1, L2):
            def run(fn, rng, Ls=Ls):
                k = W.newkey(W.l - len(Ls["e"]))
                args = [k.buf, W.params.buf, parent.buf, W.al(Ls)] + ([rng.cb] if name == "wkdibe_qualifykey" else [])
                L.call(fn, *args)
                return keybytes(k)
            two(C, V, None, run)
    elif name == "wkdibe_adjust_nondelegable":
        parent = key([["keygen", {"e": [], "omit": False}]])
        def run(fn, rng):
            k = W.apply(parent, ["ndqualify", L1])
            k2 = W.newkey(parent.l)
            ctypes.memmove(k2.buf, k.buf.raw[:N.off["wk_secretkey.b"]], N.off["wk_secretkey.b"])
            ctypes.memmove(k2.b, k.b.raw[:N.sz["wk_freeslot"] * k.l], N.sz["wk_freeslot"] * k.l)
            L.call(fn, k2.buf, parent.buf, W.al(L1), W.al(L2))
            return keybytes(k2)
        two(C, V, None, run)
    elif name in ("wkdibe_precompute", "wkdibe_adjust_precomputed"):
        def run(fn, rng):
            pre = L.buf(N.sz["wk_precomputed"])
            L.call("vk_wk_precompute", pre, W.params.buf, W.al(L1))
            if name == "wkdibe_precompute":
                pre = L.buf(N.sz["wk_precomputed"])
                L.call(fn, pre, W.params.buf, W.al(L2))
            else:
                L.call(fn, pre, W.params.buf, W.al(L1), W.al(L2))
            return pre.raw
        two(C, V, None, run)
    elif name == "wkdibe_resamplekey":
        parent = key([["keygen", L1]])
        pre = W.precompute_key_pattern(wk.model_keygen(W.l, L1, vals))
        for further in (1, 0):
            def run(fn, rng, further=further):
                k = W.newkey(parent.l if further else 0)
                L.call(fn, k.buf, W.params.buf, pre, parent.buf, further, rng.cb)
                return keybytes(k)
            two(C, V, None, run)
    elif name in ("wkdibe_encrypt", "wkdibe_encrypt_precomputed", "wkdibe_decrypt", "wkdibe_decrypt_master"):
        m = W.messages()[0]
        pairs = [(0, vals["v1"])]
        pre = W.precompute_key_pattern(wk.model_keygen(W.l, L1, vals))
        k = key([["keygen", L1]])
        ct0 = W.encrypt(m, pairs, ffi.CounterRng("c19-ct"))
        def run(fn, rng):
            if name == "wkdibe_encrypt":
                ct = L.buf(N.sz["wk_ciphertext"])
                L.call(fn, ct, m, W.params.buf, N.plain_list(pairs), rng.cb)
                return ct.raw
            if name == "wkdibe_encrypt_precomputed":
                ct = L.buf(N.sz["wk_ciphertext"])
                L.call(fn, ct, m, W.params.buf, pre, rng.cb)
                return ct.raw
            if name == "wkdibe_decrypt":
                return L.out(fn, 576, ct0, k.buf)
            return L.out(fn, 576, ct0, W.msk)
        two(C, V, None, run)
    elif name in ("wkdibe_sign", "wkdibe_sign_precomputed", "wkdibe_verify", "wkdibe_verify_precomputed"):
        from checks import c13
        pairs = [(0, vals["v1"]), (1, vals["v2"])]
        k = key([["keygen", L1]])
        pre = L.buf(N.sz["wk_precomputed"])
        L.call("vk_wk_precompute", pre, W.params.buf, N.plain_list(pairs))
        sig0 = c13.sign(W, k, pairs, 777, "direct", ffi.CounterRng("c19-sig"))
        for mval in (777, 778):
            def run(fn, rng, mval=mval):
                mb = L.bi(mval, 256)
                if name == "wkdibe_sign":
                    s = L.buf(N.sz["wk_signature"])
                    L.call(fn, s, W.params.buf, k.buf, N.plain_list(pairs), mb, rng.cb)
                    return s.raw
                if name == "wkdibe_sign_precomputed":
                    s = L.buf(N.sz["wk_signature"])
                    L.call(fn, s, W.params.buf, k.buf, N.plain_list(pairs), pre, mb, rng.cb)
                    return s.raw
                if name == "wkdibe_verify":
                    return L.call(fn, W.params.buf, N.plain_list(pairs), sig0, mb) & 1
                return L.call(fn, W.params.buf, pre, sig0, mb) & 1
            two(C, V, None, run)
    elif name.endswith("marshalled_length") or name.endswith("set_length") or name.endswith("unmarshalled_length") or name.endswith("_marshal") or name.endswith("_unmarshal"):
        return compare_marshal(E, name, eq, n, msgs)
    elif name == "lqibe_compute_id_from_hash":
        for h in (b"\0" * 48, b"\x11" * 48, bytes(range(48))):
            eq(L.out(C, L.size["lq_id"], h)[:97], L.out(V, L.size["lq_id"], h)[:97])
    elif name in ("lqibe_setup", "lqibe_keygen", "lqibe_encrypt", "lqibe_decrypt"):
        from checks import c15, c16
        objs = c15.lq_objects(L, E.seed)
        params, ident, msk, sk, ct = (objs[k][1] for k in ("lq_params", "lq_id", "lq_masterkey", "lq_secretkey", "lq_ciphertext"))
        def run(fn, rng):
            if name == "lqibe_setup":
                p, m = L.buf(L.size["lq_params"]), L.buf(L.size["lq_masterkey"])
                L.call(fn, p, m, rng.cb)
                return p.raw + m.raw
            if name == "lqibe_keygen":
                return L.out(fn, L.size["lq_secretkey"], msk, ident)[:97]
            rec = c16.Recorder()
            sym = L.buf(40)
            if name == "lqibe_encrypt":
                c2 = L.buf(L.size["lq_ciphertext"])
                L.call(fn, c2, sym, ffi.sz(40), params, ident, rec.cb, rng.cb)
                return c2.raw[:193] + sym.raw + rec.calls[0][2]
            L.call(fn, sym, ffi.sz(40), ct, sk, ident, rec.cb)
            return sym.raw + rec.calls[0][2]
        two(C, V, None, run)
    else:
        return None
    return n[0], msgs


def compare_marshal(E, name, eq, n, msgs):
    from checks import c15
    L, W, N = E.L, E.W, E.W.N
    C = "embedded_pairing_" + name
    scheme, rest = name.split("_", 1)
    pre = "vk_wk_" if scheme == "wkdibe" else "vk_lq_"
    obj = rest.split("_")[0]
    kind = ("wk_" if scheme == "wkdibe" else "lq_") + obj
    if scheme == "wkdibe":
        objs = c15.build_objects(W, {"history": [["keygen", {"e": [[0, "v1"]], "omit": False}]]})
        W._curkey = objs.pop("_key")
    else:
        objs = {k[3:]: v for k, v in c15.lq_objects(L, E.seed).items()}
    kindname, buf, l, sig = objs[obj]
    O = c15.Objs(W)
    for comp in (1, 0):
        pos, total = c15.layout(kind, bool(comp), l, sig)
        if rest.endswith("get_marshalled_length"):
            if obj in ("params", "secretkey") and scheme == "wkdibe":
                eq(L.f(C)(buf, comp), L.f(pre + obj + "_get_marshalled_length")(buf, comp))
            else:
                eq(L.f(C)(comp), L.f("vk_wk_fixed_marshalled_length")((obj if scheme == "wkdibe" else "lq_" + obj).encode(), comp))
        elif rest.endswith("_marshalled_length"):
            for ll in (0, 1, 5):
                for sg in (0, 1):
                    eq(L.f(C)(ll, sg, comp), L.f(pre + obj + "_marshalled_length")(ll, sg, comp))
        elif rest.endswith("unmarshalled_length"):
            data, _ = O.marshal(kind, buf, bool(comp), total)
            for ln in (1, total - 1, total, total + 1, total + (48 if comp else 96)):
                eq(L.f(C)(data + b"\0" * 200, ffi.sz(ln), comp), L.f(pre + obj + "_unmarshalled_length")(data + b"\0" * 200, ffi.sz(ln), comp))
        elif rest.endswith("set_length"):
            data, _ = O.marshal(kind, buf, bool(comp), total)
            for ln in (1, total, total + 7):
                p1, p2 = L.buf(L.size[kind]), L.buf(L.size[kind])
                eq((L.f(C)(p1, data + b"\0" * 16, ffi.sz(ln), comp), p1.raw), (L.f(pre + obj + "_set_length")(p2, data + b"\0" * 16, ffi.sz(ln), comp), p2.raw))
        elif rest.endswith("_unmarshal"):
            data, _ = O.marshal(kind, buf, bool(comp), total)
            for checked in (1, 0):
                res = []
                for variant in ("c", "v"):
                    if kind in ("wk_params", "wk_secretkey"):
                        # same protocol for both, only the unmarshal entry point differs
                        if kind == "wk_params":
                            o = wk.Params(N, l)
                            ctypes.memmove(ctypes.byref(o.buf, N.off["wk_params.l"]), int(l).to_bytes(4, "little"), 4)
                            extra = lambda: o.h.raw
                        else:
                            o = wk.SecretKey(N, l)
                            ctypes.memmove(ctypes.byref(o.buf, N.off["wk_secretkey.l"]), int(l).to_bytes(4, "little"), 4)
                            extra = lambda: o.b.raw
                        fn = C if variant == "c" else pre + obj + "_unmarshal"
                        rv = L.f(fn)(o.buf, data, comp, checked) & 1
                        # the objects are compared by VALUE (their uncompressed marshalling), not by the raw bytes of the structs: padding bytes
                        # (after a bool, after a slot index) are unspecified and differ legitimately, e.g. when unmarshal decodes into a local first
                        _, utotal = c15.layout(kind, False, l, sig)
                        res.append((rv, O.marshal(kind, o.buf, False, utotal)[0] if rv else None))
                    else:
                        o = L.buf(L.size[kind])
                        fn = C if variant == "c" else pre + obj + "_unmarshal"
                        rv = L.f(fn)(o, data, comp, checked) & 1
                        _, utotal = c15.layout(kind, False, l, sig)
                        res.append((rv, O.marshal(kind, o, False, utotal)[0] if rv else None))
                eq(res[0], res[1])
        elif rest.endswith("_marshal"):
            d1, _ = O.marshal(kind, buf, bool(comp), total)
            out = ctypes.create_string_buffer(total)
            L.call(pre + obj + "_marshal", out, buf, comp)
            eq(d1, out.raw)
        else:
            return None
    return n[0], msgs


def eval_case(case):
    if case["sub"] == "layout":
        msgs = []
        for row in (layout_rows(case["cfg"]) if case["cfg"] not in DATA_MODELS else layout_rows_static(case["cfg"])):
            if row[0] == "S" and (row[2], row[3]) != (row[4], row[5]):
                msgs.append("%s: struct %s: C size/align %s/%s, C++ %s/%s" % (case["cfg"], row[1], row[2], row[3], row[4], row[5]))
            if row[0] == "O" and any(int(v) in (2**32 - 1, 2**64 - 1) for v in row[2:6]):
                continue        # one side has no member of that name: not comparable (see MEMBER_PROBE in harness/c19_layout.cpp)
            if row[0] == "O" and ((row[2] != row[3]) or (row[4] != row[5])):
                msgs.append("%s: member %s: C offset/size %s/%s, C++ %s/%s" % (case["cfg"], row[1], row[2], row[4], row[3], row[5]))
            if row[0] == "K" and row[2] != "1":
                msgs.append("%s: exported constant %s differs from the C++ value" % (case["cfg"], row[1]))
        return msgs
    E = Env(case["cfg"], case["seed"])
    res = compare_function(E, case["fn"])
    if res is None:
        return ["HARNESS: no comparison for C function " + case["fn"]]
    return res[1]


_ENV = {}


def shards(ctx):
    for c in CONFIGS:
        build.build(c)
    out = [{"sub": "layout", "cfg": c} for c in CONFIGS] + [{"sub": "layout", "cfg": m} for m in DATA_MODELS]
    for c in CONFIGS:
        fns = c_functions(ffi.lib(c))
        for k in range(6):
            out.append({"sub": "functions", "cfg": c, "fns": fns[k::6]})
        ctx.extra["c_functions_" + c] = len(fns)
    return out


def run_shard(ctx, shard):
    cfg = shard["cfg"]
    if shard["sub"] == "layout":
        rows = layout_rows(cfg) if cfg not in DATA_MODELS else layout_rows_static(cfg)
        if cfg in DATA_MODELS:
            ctx.ok(True, "layout:data-model:" + cfg, n=len(rows))
        case = {"sub": "layout", "cfg": cfg}
        msgs = eval_case(case)
        ctx.ok(True, "layout:struct", n=sum(1 for r_ in rows if r_[0] == "S"))
        ctx.ok(True, "layout:member", n=sum(1 for r_ in rows if r_[0] == "O"))
        ctx.ok(True, "layout:constant", n=sum(1 for r_ in rows if r_[0] == "K"))
        ctx.sample({"cfg": cfg, "rows": [" ".join(r_) for r_ in rows[:4]]}, limit=1)
        if msgs:
            ctx.fail(case, "; ".join(msgs[:4]), sig="layout:" + msgs[0].split(": ")[1][:40])
        return
    E = Env(cfg, ctx.seed)
    for fn in shard["fns"]:
        case = {"sub": "function", "cfg": cfg, "seed": ctx.seed, "fn": fn}
        res = compare_function(E, fn)
        if res is None:
            ctx.notes.append("unmapped:" + fn)
            ctx.extra["unmapped"] += 1
            continue
        cnt, msgs = res
        ctx.ok(True, "function:" + fn.split("_")[0], n=max(cnt, 1))
        ctx.extra["fn:" + fn] = 1
        ctx.sample(case, limit=1)
        if msgs:
            ctx.fail(case, "; ".join(msgs[:3]), sig="function:" + fn)


def replay(ctx, case):
    return eval_case(case)


def finish(merged, cov):
    if merged.extra.get("unmapped"):
        return "exported C functions without a comparison (harness out of date): %s" % sorted(set(n for n in merged.notes if n.startswith("unmapped:")))
    fns = len([k for k in merged.extra if k.startswith("fn:")])
    cov["c_functions_compared"] = fns
    cov["c_functions_exported"] = merged.extra.get("c_functions_asm", 0)
    if fns < merged.extra.get("c_functions_asm", 0):
        return "only %d of %d exported C functions compared" % (fns, merged.extra.get("c_functions_asm", 0))
    for need in ("layout:struct", "layout:member", "layout:constant", "function:bls12", "function:wkdibe", "function:lqibe", "layout:data-model:armv6m-ilp32", "layout:data-model:i386-ilp32"):
        if not merged.outcomes.get(need):
            return "class %s never exercised" % need
    cov["states"] = merged.evaluations
    cov["transitions"] = merged.evaluations
    cov["traces_validated_against_impl"] = 0
    return None
