"""C06 - scalar multiplication returns [k]P for every scalar and every algorithm (engine A)."""
import ctypes

from vlib import alpha, build, ffi, ref

PROPERTY = "C06"
LEVEL = "model_checking"
RULE = ("bounded-exhaustive: every scalar of S(bits) for bits in {64,128,256,512} (0..17; 2^k, 2^k+-1 around every byte and w-NAF window boundary; "
        "2^bits-j for j=1..33; r, 2r, floor(2^256/r)r +-1; lambda; GLV rounding thresholds; base-|x| digit boundary patterns; bit patterns; fillers) "
        "x bases {G, filler*G, identity, non-normalised G, a point outside the subgroup, the order-3 point} x every routine (endomorphism G1, "
        "Frobenius G2, w-NAF windows 2..5, table-based, WnafScalar-based, double-and-add (restrict and not), generic multiply, 128/512-bit overloads, "
        "C entry points; affine and projective base) on 3 back ends, compared with plain affine double-and-add in Python; the recoding "
        "(sum d_i 2^i = k, odd digits inside the table, wnaf_size <= bits+1, no write outside the digit buffer) and the base-|x| decomposition "
        "(sum c_i |x|^i = k mod r) are checked as functions; engine S: the unchanged wnaf.hpp instantiated on 8-bit words is run on ALL scalars of 16 bits "
        "(windows 2..5) and 24 bits (window 4; all windows in the thorough tier): digits recombine exactly, are odd / inside the table / non-adjacent, and "
        "wnaf_multiply over an integer toy group equals scalar * base. distinct by construction; non-trivial = k > 1 and base not the identity")
ASSUMPTIONS = ["vlib/ref.py double-and-add on affine coordinates is the ground truth",
               "routines that use the order-r eigenvalue (G1::multiply 256-bit, G2::multiply 256-bit, multiply_frobenius) are only required on subgroup points"]
CONFIGS = ["asm", "c64", "c32"]
NAME = {1: "g1", 2: "g2"}
WIDTHS = [64, 128, 256, 512]
QUICK_WIDTHS = {1: [64, 128, 256], 2: [64, 256, 512]}      # the widths the library's own entry points use


def bases(g, seed):
    G = ref.G1_GEN if g == 1 else ref.G2_GEN
    f = alpha.fillers(seed, "c06b%d" % g, 1, ref.r)[0]
    out = [("G", G, None, True), ("fG", ref.pt_mul(G, f, g), None, True), ("O", None, None, True),
           ("G/z", G, alpha.z_values(g, seed, "thorough")[1], True)]
    if g == 1:
        ns = alpha.small_order_points_g1()
        out.append(("N", ns[1], None, False))
        out.append(("T3", ns[0], None, False))       # (0, 2): order 3
    else:
        out.append(("N", alpha.non_subgroup_points_g2()[0], None, False))
    return out


def routines(g, w, affine_ok, in_subgroup):
    """[(name, shim function, base kind)] applicable to this width / base"""
    n = NAME[g]
    out = []
    kinds = ["p", "a"] if affine_ok else ["p"]
    for k in kinds:
        for win in (2, 3, 4, 5):
            out.append(("wnaf%d_%s" % (win, k), "vk_%s_wnaf%d_%s_%d" % (n, win, k, w), k))
        out.append(("doubleadd_%s" % k, "vk_%s_doubleadd_%s_%d" % (n, k, w), k))
        out.append(("doubleadd_restrict_%s" % k, "vk_%s_doubleadd_restrict_%s_%d" % (n, k, w), k))
        out.append(("generic_multiply_%s" % k, "vk_%s_generic_multiply_%s_%d" % (n, k, w), k))
    out.append(("table4", "vk_%s_table4_multiply_%d" % (n, w), "p"))
    out.append(("wnafscalar4", "vk_%s_wnafscalar4_multiply_%d" % (n, w), "p"))
    if g == 1 and w == 128:
        for k in kinds:
            out.append(("multiply128_%s" % k, "vk_g1_multiply_%s_128" % k, k))
    if g == 2 and w == 512:
        for k in kinds:
            out.append(("multiply512_%s" % k, "vk_g2_multiply_%s_512" % k, k))
    if w == 256 and in_subgroup:
        for k in kinds:
            out.append(("multiply256_%s" % k, "vk_%s_multiply_%s_256" % (n, k), k))
        out.append(("c_multiply", "embedded_pairing_bls12_381_%s_multiply" % n, "p"))
        if affine_ok:
            out.append(("c_multiply_affine", "embedded_pairing_bls12_381_%s_multiply_affine" % n, "a"))
        if g == 1:
            out.append(("multiply_endomorphism", "vk_g1_multiply_endomorphism", "p"))
        else:
            out.append(("multiply_frobenius", "vk_g2_multiply_frobenius", "p"))
    return out


_EXP = {}


def expected(g, label, P, k, in_subgroup):
    kk = k % ref.r if in_subgroup else (k % 3 if label == "T3" else k)
    key = (g, label, kk)
    if key not in _EXP:
        _EXP[key] = ref.pt_mul(P, kk, g)
    return _EXP[key]


def eval_case(case):
    """one (group, base, width, scalar): all routines on all back ends"""
    sub = case["sub"]
    if sub == "platform":
        return eval_platform(case)
    if sub == "recode":
        return eval_recode(case)
    if sub == "decompose":
        return eval_decompose(case)
    g, w = case["g"], case["w"]
    k = int(case["k"], 16)
    label, P, z, insub = [b for b in bases(g, case["seed"]) if b[0] == case["base"]][0]
    exp = expected(g, label, P, k, insub)
    msgs = []
    only = case.get("routine")
    for cfg in case.get("cfgs", CONFIGS):
        L = ffi.lib(cfg)
        n = NAME[g]
        Pn = L.proj(P, g, z)
        An = L.aff(P, g)
        kb = L.bi(k, w)
        for name, fn, kind in routines(g, w, z is None, insub):
            if only and name != only:
                continue
            out = L.out(fn, L.size[n], Pn if kind == "p" else An, kb)
            got = L.unproj(out, g)
            if got != exp:
                msgs.append("%s:%s" % (cfg, name))
    return msgs


def eval_recode(case):
    w, win = case["w"], case["win"]
    k = int(case["k"], 16)
    msgs = []
    for cfg in CONFIGS:
        L = ffi.lib(cfg)
        out = L.buf(w + 1, b"\x77" * (w + 1))
        guard = ctypes.c_int(0)
        size = L.call("vk_wnaf_recode_%d_%d" % (w, win), out, L.bi(k, w), ctypes.byref(guard))
        if not guard.value:
            msgs.append("%s: from_bigint wrote outside the WnafScalar object" % cfg)
        if not (0 <= size <= w + 1):
            msgs.append("%s: wnaf_size %d outside [0, bits+1]" % (cfg, size))
            continue
        digits = [d - 256 if d > 127 else d for d in out.raw[:size]]
        val = sum(d << i for i, d in enumerate(digits))
        if val != k:
            msgs.append("%s: digits recombine to %x, not the scalar" % (cfg, val))
        for d in digits:
            if d != 0 and (d % 2 == 0 or abs(d) >= (1 << win)):
                msgs.append("%s: digit %d is even or indexes outside the table" % (cfg, d))
                break
    return msgs


def eval_decompose(case):
    k = int(case["k"], 16)
    msgs = []
    for cfg in CONFIGS:
        L = ffi.lib(cfg)
        px = L.out("vk_powersofx_decompose", L.size["powersofx"], L.bi(k, 256))
        step = L.size["bigint64"]
        cs = [int.from_bytes(px[step * i:step * i + 8], "little") for i in range(4)]
        val = sum(c * ref.X_ABS**i for i, c in enumerate(cs))
        if val % ref.r != k % ref.r:
            msgs.append("%s: decomposition recombines to another residue" % cfg)
        # the decomposition drives G2 / GT: use it
        G2n = L.proj(ref.G2_GEN, 2, None)
        out = L.out("vk_g2_multiply_frobenius_powers", L.size["g2"], G2n, px)
        if L.unproj(out, 2) != expected(2, "G", ref.G2_GEN, k, True):
            msgs.append("%s: multiply_frobenius(decompose(k)) != [k]G2" % cfg)
    return msgs


def shards(ctx):
    for c in CONFIGS:
        build.build(c)
    out = [{"sub": "platform"}]
    for g in (1, 2):
        for (label, P, z, insub) in bases(g, ctx.seed):
            for w in (WIDTHS if ctx.tier == "thorough" else QUICK_WIDTHS[g]):
                parts = {64: 1, 128: 2, 256: 6, 512: 8}[w]
                if label in ("O",):
                    parts = 1
                for part in range(parts):
                    out.append({"sub": "mul", "g": g, "base": label, "w": w, "part": part, "parts": parts})
    for w in WIDTHS:
        out.append({"sub": "recode", "w": w})
    out.append({"sub": "decompose"})
    # engine S: wnaf.hpp itself, instantiated with 16- and 24-bit scalars on 8-bit words, ALL scalars
    for k in range(8):
        out.append({"sub": "w8wnaf", "part": k, "parts": 8})
    # heavier shards first
    out.sort(key=lambda s: -s.get("w", 0))
    return out


def scalar_set(ctx, w, label):
    S = alpha.scalars(w, ctx.seed, ctx.tier)
    if label in ("O", "G/z", "fG", "T3") and ctx.tier == "quick":
        S = S[::4] + [2**w - j for j in range(1, 18)]
    elif label in ("O", "T3"):
        S = S[::3] + [2**w - j for j in range(1, 18)]
    if label == "N" and ctx.tier == "quick":
        S = S[::3] + [2**w - j for j in range(1, 18)]
    return alpha.dedup(S)


def w8_exe():
    return build.build_exe("c32", "w8", ["w8.cpp"], extra_flags=["-O2", "-U__SIZEOF_INT128__", "-DDISABLE_ASM"], link_lib=False)


def run_w8wnaf(ctx, part, parts):
    import json
    import subprocess
    p = subprocess.run([w8_exe(), "wnaf-quick" if ctx.tier == "quick" else "wnaf-thorough", str(part), str(parts)], stdout=subprocess.PIPE, stderr=subprocess.PIPE, text=True)
    if p.returncode not in (0, 1):
        raise RuntimeError("w8 harness crashed: rc=%d %s" % (p.returncode, p.stderr[-2000:]))
    for line in p.stdout.splitlines():
        if line.startswith("STAT "):
            d = json.loads(line[5:])
            ctx.ok(True, "w8:" + d["op"], n=d["n"])
            ctx.extra["w8_wnaf_scalars"] += d["n"]
        elif line.startswith("FAIL "):
            d = json.loads(line[5:])
            what = "digits do not recombine / leave the digit set" if d["p"] == 0 else "wnaf_multiply over the integer toy group != scalar * base"
            ctx.fail({"sub": "w8wnaf", "args": d}, "wnaf.hpp with %s, scalar %d (all scalars of that width enumerated on 8-bit words): %s" % (d["op"], d["a"] | (d["b"] << 32), what), sig="w8:" + d["op"])
    ctx.sample({"sub": "w8wnaf", "note": "WnafScalar<16|24, 2..5>::from_bigint and wnaf_multiply for ALL scalars (8-bit-word instantiation of the unchanged header)"}, limit=1)


def eval_platform(case):
    """the scalar multiplications of harness/platform_vectors.cpp (word-pattern scalars through the C interface) on three native back ends and
    executed under the ILP32 data model (static i386 build): see C03's eval_platform; only the multiplication groups are judged here"""
    from checks import c03
    return c03.eval_platform(groups=("g1_multiply", "g1_multiply_affine", "g2_multiply"))


def run_shard(ctx, shard):
    sub = shard["sub"]
    if sub == "platform":
        msgs = eval_platform({})
        ctx.ok(True, "platform-vectors", n=300)
        if msgs:
            ctx.fail({"sub": "platform"}, "; ".join(msgs[:3]), sig="platform")
        return
    if sub == "w8wnaf":
        return run_w8wnaf(ctx, shard["part"], shard["parts"])
    if sub == "recode":
        w = shard["w"]
        for k in alpha.scalars(w, ctx.seed, "thorough"):
            for win in (2, 3, 4, 5):
                case = {"sub": "recode", "w": w, "win": win, "k": "%x" % k}
                msgs = eval_recode(case)
                ctx.ok(k > 1, "recode:%d:%d" % (w, win), n=len(CONFIGS))
                ctx.sample(case, limit=1)
                if msgs:
                    top = "top" if k >= 2**w - 2**(win + 1) else "other"
                    ctx.fail(case, "; ".join(msgs), sig="recode:%s" % top)
        return
    if sub == "decompose":
        for k in alpha.scalars(256, ctx.seed, ctx.tier):
            case = {"sub": "decompose", "k": "%x" % k}
            msgs = eval_decompose(case)
            ctx.ok(k > 1, "decompose", n=len(CONFIGS))
            ctx.sample(case, limit=1)
            if msgs:
                ctx.fail(case, "; ".join(msgs), sig="decompose")
            if ctx.out_of_time():
                return
        return
    g, w, label = shard["g"], shard["w"], shard["base"]
    S = scalar_set(ctx, w, label)[shard["part"]::shard["parts"]]
    P, z, insub = [(b[1], b[2], b[3]) for b in bases(g, ctx.seed) if b[0] == label][0]
    nrt = len(routines(g, w, z is None, insub))
    for i, k in enumerate(S):
        case = {"sub": "mul", "g": g, "base": label, "w": w, "k": "%x" % k, "seed": ctx.seed}
        # the scalar-multiplication code is shared by the back ends (only the base field differs: C02/C03); the portable
        # back ends run every 4th scalar and all of the top-of-range scalars
        if ctx.tier == "quick" and i % 4 and k < 2**w - 64:
            case["cfgs"] = ["asm"]
        nr = nrt * len(case.get("cfgs", CONFIGS))
        msgs = eval_case(case)
        ctx.ok(k > 1 and P is not None, "mul:g%d:%d:%s" % (g, w, label), n=nr)
        ctx.sample(case, limit=1)
        if msgs:
            # one failure record per routine family so that signatures are specific
            fams = sorted(set(m.split(":")[1] for m in msgs))
            top = "top" if k >= 2**w - 64 else "other"
            for fam in fams:
                c2 = dict(case)
                c2["routine"] = fam
                ctx.fail(c2, "[%d]%s (%d-bit scalar %x) wrong via %s" % (g, label, w, k, [m for m in msgs if m.split(":")[1] == fam]),
                         sig="mul:g%d:%s:%d:%s" % (g, fam, w, top))
        if ctx.out_of_time():
            return


def replay(ctx, case):
    if case.get("sub") == "w8wnaf":
        import subprocess
        d = case["args"]
        p = subprocess.run([w8_exe(), "one", d["op"], str(d["p"]), str(d["a"]), str(d.get("b", 0))], stdout=subprocess.PIPE, text=True)
        return [l for l in p.stdout.splitlines() if l.startswith("FAIL ")]
    return eval_case(case)


def finish(merged, cov):
    for need in ("mul:g1:256:G", "mul:g2:256:G", "mul:g1:128:N", "mul:g2:512:N", "recode:256:4", "recode:64:2", "decompose", "w8:wnaf_16_4", "w8:wnaf_24_4"):
        if not merged.outcomes.get(need):
            return "outcome class %s never exercised" % need
    cov["traces_validated_against_impl"] = merged.evaluations
    cov["states"] = merged.evaluations
    cov["transitions"] = merged.evaluations
    return None
