"""C10 - hash-to-scalar, hash-to-curve and random sampling always land in the right set (engines A + E)."""
import hashlib

from vlib import alpha, build, envexp, ffi, ref

PROPERTY = "C10"
LEVEL = "model_checking"
RULE = ("hashing: bounded-exhaustive byte strings (boundary values of r/q, values >= modulus, all top-bit patterns, x0 = q-1 wrap, hashes whose "
        "x0..x0+k are all misses for the longest runs found by search, the all-zero hash landing on the order-3 point) vs the exact specification "
        "(top bit(s) cleared, reduced; first x >= x0 with x^3+b square; the root that is 'not greater'; cofactor cleared) on 3 back ends. "
        "sampling: the caller's random source is enumerated: answers typed by request length (48 bytes: {filler,0,1,q-1,q,2^381-1,2^384-1,x without y, "
        "coordinates of a small-order G2 point}; 32 bytes: {filler,0,1,r-1,r,2^255-1,2^256-1}; 8 bytes: {filler,0,1,|x|-1,|x|,2^64-1}; 1 byte: {0,1}), ALL "
        "answer sequences with <= 2 deviations from the default within the first 10 requests for every sampling routine; post-conditions: below modulus, "
        "non-identity, on curve, in the subgroup, decomposition consistent, deterministic, terminates. distinct by construction; non-trivial = not all-zero input / >= 1 deviation")
ASSUMPTIONS = ["vlib/ref.py hash_to_curve / zp_from_hash are the specification", "subgroup membership of sampled points is decided by the library's own check "
               "(tied to the model on the alphabets of C05/C09) and by Python double-and-add on every 16th execution"]
CONFIGS = ["asm", "c64", "c32"]
q, r, X = ref.q, ref.r, ref.X_ABS


# --------------------------------------------------------------------------------------------- hashing
def hash_strings_scalar(seed):
    vals = alpha.boundary(r, 256, seed, nfill=4)
    vals += [r, r + 1, 2**255 - 1, 2**255 - 2, 2 * r - 1 if 2 * r - 1 < 2**255 else r]
    out = []
    for v in vals:
        if v < 2**255:
            for top in (0, 1):
                out.append(((top << 255) | v).to_bytes(32, "big"))
    out.append(b"\xff" * 32)
    return alpha.dedup(out)


def find_miss_runs(g, seed, want, budget):
    """x0 values (as ints / pairs) such that x0, x0+1, ..., x0+k-1 are all misses, longest runs first"""
    start = alpha.fillers(seed, "miss%d" % g, 1, q)[0]
    runs = []
    run_start, run_len = None, 0
    x = start if g == 1 else (start, alpha.fillers(seed, "missc1", 1, q)[0])
    for _ in range(budget):
        hit = ref.point_from_x(x, g) is not None
        if hit:
            if run_len:
                runs.append((run_len, run_start))
            run_start, run_len = None, 0
        else:
            if run_start is None:
                run_start = x
            run_len += 1
        x = (x + 1) % q if g == 1 else ((x[0] + 1) % q, x[1])
    runs.sort(key=lambda t: -t[0])
    return runs[:want]


def hash_strings_curve(g, seed, tier):
    out = [(b"\x00" * (48 * g), "all-zero"), (b"\xff" * (48 * g), "all-ones")]
    budget = 600 if tier == "quick" else 4000
    for k, x0 in find_miss_runs(g, seed, 6, budget if g == 1 else budget // 3):
        out.append((ref.coord_bytes(x0, g), "miss-run-%d" % k))
    # long runs found once by an offline search (2^22 consecutive candidates): x0 followed by 15..19 x-coordinates that are not on the
    # curve (a run of k occurs with probability 2^-k; the model re-derives every run length, nothing is taken on trust).  A bounded
    # retry loop, a narrow counter or a "give up" path in try-and-increment shows at these inputs; starting inside a run gives every
    # shorter length too
    LONG = {1: [6000296581, 9000012001, 3000005518, 1000031948], 2: [(7000071093, 19088743), (3000056730, 19088743)]}[g]
    for x0 in LONG:
        for skip in (0, 1, 2, 3):
            xs = (x0 + skip) if g == 1 else (x0[0] + skip, x0[1])
            bs = ref.coord_bytes(xs, g)
            out.append((bs, "miss-run-%d" % ref.hash_to_curve(bs, g)[1]))
    B = [0, 1, 2, q - 1, q - 2] + alpha.fillers(seed, "hc%d" % g, 3, q)
    for v in B:
        if g == 1:
            out.append((v.to_bytes(48, "big"), "boundary"))
        else:
            out.append((v.to_bytes(48, "big") + B[-1].to_bytes(48, "big"), "boundary"))      # c1 = v
            out.append((B[-2].to_bytes(48, "big") + v.to_bytes(48, "big"), "boundary"))      # c0 = v
    if g == 1:
        # x chosen by what the residue test SEES: x^3 + 4 whose stored (Montgomery) form is a word pattern - zero low words, all-ones words,
        # the modulus' own words - found by extracting a cube root. Whatever decides "is it a square" (Euler's criterion, a Jacobi
        # symbol, a square root and a comparison) starts from those words, not from the bytes of the hash.
        Rinv = pow(2**384, -1, q)
        pats = [v for v in alpha.limb_product(q, 6, 3) if 0 < v < q]
        pats = pats[:: (7 if tier == "quick" else 1)] + [v for v in pats if v & (2**128 - 1) == 0][:: (3 if tier == "quick" else 1)]
        for T in alpha.dedup(pats):
            xs = alpha.cube_roots_fq(T * Rinv - 4)
            if xs:
                out.append((min(xs).to_bytes(48, "big"), "stored form of x^3+4 is a word pattern"))
    # unreduced values and top-bit patterns
    base = alpha.fillers(seed, "hcb%d" % g, 1, q)[0]
    for top in range(8):
        for v in (base, q, q + 1, 2**381 - 1, 0):
            if v < 2**381:
                s = ((top << 381) | v).to_bytes(48, "big")
                out.append((s if g == 1 else s + s, "top-bits"))
    seen = {}
    for s, why in out:
        seen.setdefault(s, why)
    return list(seen.items())


def eval_hash(case):
    msgs = []
    kind = case["kind"]
    bs = bytes.fromhex(case["bytes"])
    results = []
    for cfg in CONFIGS:
        L = ffi.lib(cfg)
        if kind == "scalar":
            exp = ref.zp_from_hash(bs)
            out = L.out("embedded_pairing_bls12_381_zp_from_hash", 32, bs)
            if int.from_bytes(out, "little") != exp:
                msgs.append("%s: zp_from_hash = %x expected %x" % (cfg, int.from_bytes(out, "little"), exp))
            raw = int.from_bytes(bs, "big")
            b2 = L.buf(32, raw.to_bytes(32, "little"))
            L.call("embedded_pairing_wkdibe_scalar_hash_reduce", b2)
            if int.from_bytes(b2.raw, "little") != exp:
                msgs.append("%s: scalar_hash_reduce differs" % cfg)
        else:
            g = 1 if kind in ("g1", "id") else 2
            P, tries = ref.hash_to_curve(bs, g)
            asize = L.size["g1affine" if g == 1 else "g2affine"]
            if kind == "id":
                out = L.out("embedded_pairing_lqibe_compute_id_from_hash", L.size["lq_id"], bs)
                exp = ref.pt_mul(P, ref.G1_COFACTOR, 1)
                got = L.unaff(out, 1)
                if got != exp:
                    msgs.append("%s: compute_id_from_hash is not cofactor * try-and-increment point" % cfg)
                if exp is not None and not ref.in_subgroup(exp, 1):
                    msgs.append("MODEL: cofactor-cleared point outside G1")
            else:
                for fn in ("embedded_pairing_bls12_381_g%daffine_from_hash" % g, "vk_g%daffine_from_hash" % g):
                    out = L.out(fn, asize, bs)
                    got = L.unaff(out, g)
                    if got != P:
                        msgs.append("%s: %s is not the first curve point from x0 with the 'not greater' root (model needed %d increments)" % (cfg, fn, tries))
            results.append(out[:96 * g + 1])
    if len(set(results)) > 1:
        msgs.append("back ends disagree (platform dependence)")
    return msgs


# --------------------------------------------------------------------------------------------- sampling
_SMALL = {}


def small_order_g2_x(seed):
    """x coordinate of a non-identity point of E'(Fq2) whose order divides the cofactor"""
    if "x" not in _SMALL:
        N = alpha.non_subgroup_points_g2()[0]
        T = ref.pt_mul(N, r, 2)
        assert T is not None and ref.pt_mul(T, ref.G2_COFACTOR, 2) is None
        _SMALL["x"] = T[0]
    return _SMALL["x"]


def no_y_x():
    x = 5
    while ref.point_from_x(x, 1) is not None:
        x += 1
    return x


def menus(seed):
    sx = small_order_g2_x(seed)
    m48 = [None, 0, 1, q - 1, q, 2**381 - 1, 2**384 - 1, no_y_x(), sx[0], sx[1]]
    m32 = [None, 0, 1, r - 1, r, 2**255 - 1, 2**256 - 1]
    m8 = [None, 0, 1, X - 1, X, 2**64 - 1]
    m1 = [None, 0, 1]

    def menu(n):
        m = {48: m48, 32: m32, 8: m8, 1: m1}.get(n)
        if m is None:
            # a request size this table does not know (the library may consume its random source in other units): generic alternatives
            return [None, b"\0" * n, b"\xff" * n, (b"\x01" + b"\0" * (n - 1)) if n else b""]
        return [None] + [v.to_bytes(n, "little") for v in m[1:]]

    def default(n, i):
        h = hashlib.sha256(b"c10|%d|%d|%d" % (seed, n, i)).digest() * 2
        v = int.from_bytes(h[:n], "little")
        if n == 48:
            v %= q
        elif n == 32:
            v %= r
        elif n == 8:
            v %= X
        return v.to_bytes(n, "little")
    return menu, default


ROUTINES = {
    # name: (function, output kind)
    "zp_random": ("embedded_pairing_bls12_381_zp_random", "fr"),
    "random_zpstar": ("embedded_pairing_wkdibe_random_zpstar", "fr"),
    "fq_random": ("vk_fq_random", "fq"),
    "fr_random": ("vk_fr_random", "fr"),
    "fq2_random": ("vk_fq2_random", "fq2"),
    "g1_random": ("embedded_pairing_bls12_381_g1_random", "g1"),
    "g2_random": ("embedded_pairing_bls12_381_g2_random", "g2"),
    "wk_random_g1": ("embedded_pairing_wkdibe_random_g1", "g1"),
    "wk_random_g2": ("embedded_pairing_wkdibe_random_g2", "g2"),
    "random_zpstar_powers": ("vk_wk_random_zpstar_powers", "powers"),
    "wk_random_gt": ("embedded_pairing_wkdibe_random_gt", "gt"),
    "gt_multiply_random": ("embedded_pairing_bls12_381_gt_multiply_random", "gtmul"),
}


def run_routine(L, name, stream):
    fn, kind = ROUTINES[name]
    cb = L.rng(stream.answer)
    if kind in ("fr", "fq"):
        size = 32 if kind == "fr" else 48
        out = L.buf(size, b"\xCD" * size)
        L.call(fn, out, cb)
        return (out.raw,)
    if kind == "fq2":
        out = L.buf(96)
        L.call(fn, out, cb)
        return (out.raw,)
    if kind in ("g1", "g2"):
        out = L.buf(L.size[kind])
        L.call(fn, out, cb)
        return (out.raw,)
    if kind == "powers":
        px = L.buf(L.size["powersofx"])
        s = L.buf(32, b"\xCD" * 32)
        L.call(fn, px, s, cb)
        return (px.raw, s.raw)
    if kind == "gt":
        out = L.buf(576)
        L.call(fn, out, cb)
        return (out.raw,)
    if kind == "gtmul":
        out = L.buf(576)
        s = L.buf(32, b"\xCD" * 32)
        base = L.const("generator_pairing", 576)
        L.call(fn, out, s, base, cb)
        return (out.raw, s.raw)
    raise ValueError(kind)


def postconditions(L, name, obs, python_check):
    fn, kind = ROUTINES[name]
    msgs = []
    if kind == "fr":
        if int.from_bytes(obs[0], "little") >= r:
            msgs.append("sampled scalar not below r")
    elif kind == "fq":
        if int.from_bytes(obs[0], "little") >= q:
            msgs.append("sampled field element not below q")
    elif kind == "fq2":
        if not L.canonical_ext(obs[0], 2):
            msgs.append("sampled Fq2 component not below q")
    elif kind in ("g1", "g2"):
        g = 1 if kind == "g1" else 2
        if not L.canonical_ext(obs[0], 3 * g):
            msgs.append("non-canonical coordinates")
        if L.call("vk_%s_is_zero" % kind, obs[0]):
            msgs.append("sampled group element is the identity")
        else:
            aff = L.out("vk_%saffine_from_projective" % kind, L.size[kind + "affine"], obs[0])
            if not L.call("vk_%saffine_is_on_curve" % kind, aff):
                msgs.append("sampled point off curve")
            elif not L.call("vk_%saffine_in_subgroup" % kind, aff):
                msgs.append("sampled point outside the order-r subgroup")
            if python_check:
                P = L.unproj(obs[0], g)
                if P is None or not ref.on_curve(P, g) or not ref.in_subgroup(P, g):
                    msgs.append("sampled point fails the Python subgroup check")
    elif kind == "powers":
        step = L.size["bigint64"]
        cs = [int.from_bytes(obs[0][step * i:step * i + 8], "little") for i in range(4)]
        y = int.from_bytes(obs[1], "little")
        if y >= r:
            msgs.append("y not below r")
        if sum(c * X**i for i, c in enumerate(cs)) != y:
            msgs.append("decomposed exponent inconsistent with the returned scalar")
    elif kind == "gt":
        out = obs[0]
        if not L.canonical_ext(out, 12):
            msgs.append("non-canonical GT element")
        if python_check:
            v = L.unf12(out)
            if ref.f12_pow(v, r) != ref.F12_ONE:
                msgs.append("sampled GT element does not have order dividing r")
    elif kind == "gtmul":
        y = int.from_bytes(obs[1], "little")
        if y >= r:
            msgs.append("y not below r")
        base = L.const("generator_pairing", 576)
        if L.out("vk_fq12_exp256", 576, base, L.bi(y, 256)) != obs[0]:
            msgs.append("result != base^y")
    return msgs


def eval_sampling(case):
    """replay of one answer sequence"""
    seed = case["seed"]
    menu, default = menus(seed)
    msgs = []
    for cfg in case.get("cfgs", ["asm"]):
        L = ffi.lib(cfg)
        choices = {int(k): v for k, v in case["choices"].items()}
        st = envexp.Stream(choices, default, menu)
        obs = run_routine(L, case["routine"], st)
        if st.overrun:
            msgs.append("%s: did not terminate within %d requests" % (cfg, st.horizon))
            continue
        st2 = envexp.Stream(choices, default, menu)
        obs2 = run_routine(L, case["routine"], st2)
        if obs2 != obs or st2.requests != st.requests:
            msgs.append("%s: not deterministic for the same random stream" % cfg)
        msgs += ["%s: %s" % (cfg, m) for m in postconditions(L, case["routine"], obs, case.get("python", False))]
    return msgs


def eval_case(case):
    if case["sub"] == "hash":
        return eval_hash(case)
    if case["sub"] == "scripted":
        return eval_scripted(case)
    if case["sub"] == "reject-run":
        return eval_reject_run(case)
    if case["sub"] == "platform":
        return eval_platform(case)
    return eval_sampling(case)


# --------------------------------------------------------------------------------------------- shards
def shards(ctx):
    for c in CONFIGS:
        build.build(c)
    out = [{"sub": "hash", "kind": "scalar"}]
    for kind in ("g1", "g2", "id"):
        for k in range(3):
            out.append({"sub": "hash", "kind": kind, "part": k, "parts": 3})
    for name in ROUTINES:
        parts = 10 if ROUTINES[name][1] in ("g1", "g2") else 2
        for k in range(parts):
            out.append({"sub": "sampling", "routine": name, "part": k, "parts": parts})
    out.append({"sub": "scripted"})
    out.append({"sub": "platform"})
    for name in ROUTINES:
        out.append({"sub": "reject-run", "routine": name})
    return out


def scripts():
    """digit scripts for the base-|x| samplers that the deviation bound cannot reach (three or four non-default digits): the
    recombined value exactly r-1 (accepted), r and r+1 (whole tuple rejected, next tuple used), 0 (rejected where Zp* is sampled),
    the largest tuple, and a tuple rejected digit-wise followed by y = r"""
    return [("y=r-1", [0, 0, X - 1, X - 1]), ("y=r", [1, 0, X - 1, X - 1]), ("y=r+1", [2, 0, X - 1, X - 1]), ("y=x^4-1", [X - 1] * 4), ("y=0", [0, 0, 0, 0]),
            ("y=1", [1, 0, 0, 0]), ("digit-reject-then-r", [X, 0, 0, 0, 1, 0, X - 1, X - 1]), ("r-twice", [1, 0, X - 1, X - 1, 1, 0, X - 1, X - 1])]


SCRIPTED = ["random_zpstar_powers", "wk_random_gt", "gt_multiply_random", "random_zpstar", "zp_random"]


def eval_scripted(case):
    menu, default = menus(case["seed"])
    msgs = []
    for cfg in CONFIGS:
        L = ffi.lib(cfg)
        st = envexp.ScriptStream(case["script"], 8, default)
        obs = run_routine(L, case["routine"], st)
        if st.overrun:
            msgs.append("%s: did not terminate within %d requests" % (cfg, st.horizon))
            continue
        msgs += ["%s: %s" % (cfg, m) for m in postconditions(L, case["routine"], obs, cfg == "asm")]
        st2 = envexp.ScriptStream(case["script"], 8, default)
        if run_routine(L, case["routine"], st2) != obs:
            msgs.append("%s: not deterministic for the same random stream" % cfg)
    return msgs


def eval_reject_run(case):
    """the first k requests of the routine are answered with all-ones bytes (rejected by every sampler), k = 1..40"""
    menu, default = menus(case["seed"])
    msgs = []
    for cfg in CONFIGS:
        L = ffi.lib(cfg)
        st = envexp.RunStream(case["k"], default)
        obs = run_routine(L, case["routine"], st)
        if st.overrun:
            msgs.append("%s: did not terminate within %d requests" % (cfg, st.horizon))
            continue
        msgs += ["%s: %s" % (cfg, m) for m in postconditions(L, case["routine"], obs, cfg == "asm" and case["k"] in (1, 13, 40))]
        st2 = envexp.RunStream(case["k"], default)
        if run_routine(L, case["routine"], st2) != obs:
            msgs.append("%s: not deterministic for the same random stream" % cfg)
    return msgs


PLATFORM_GROUPS = ("zp_from_hash", "scalar_hash_reduce", "g1affine_from_hash", "g2affine_from_hash", "lqibe_id", "zp_random", "g1_random", "g2_random", "gt_multiply_random")


def eval_platform(case):
    """'platform-independent': the hashing and sampling results of harness/platform_vectors.cpp on three native back ends and executed under
    the ILP32 data model (static i386 build) - see C03's eval_platform; only the hashing / sampling groups are judged here"""
    from checks import c03
    return c03.eval_platform(groups=PLATFORM_GROUPS)


def run_shard(ctx, shard):
    if shard["sub"] == "platform":
        msgs = eval_platform({})
        ctx.ok(True, "platform-vectors", n=400)
        if msgs:
            ctx.fail({"sub": "platform"}, "; ".join(msgs[:3]), sig="platform")
        return
    if shard["sub"] == "reject-run":
        for k in range(1, 41):
            case = {"sub": "reject-run", "routine": shard["routine"], "k": k, "seed": ctx.seed}
            msgs = eval_reject_run(case)
            ctx.ok(True, "reject-run", n=len(CONFIGS))
            if msgs:
                ctx.fail(case, "%s after %d rejected answers: %s" % (shard["routine"], k, "; ".join(msgs[:3])), sig="reject-run:" + shard["routine"])
        return
    if shard["sub"] == "hash":
        kind = shard["kind"]
        if kind == "scalar":
            strs = [(s, "scalar") for s in hash_strings_scalar(ctx.seed)]
        else:
            strs = hash_strings_curve(1 if kind in ("g1", "id") else 2, ctx.seed, ctx.tier)[shard["part"]::shard["parts"]]
        for s, why in strs:
            case = {"sub": "hash", "kind": kind, "bytes": s.hex()}
            msgs = eval_hash(case)
            ctx.ok(any(s), "hash:%s:%s" % (kind, why), n=len(CONFIGS))
            ctx.sample(case, limit=1)
            if msgs:
                ctx.fail(case, "; ".join(msgs[:3]), sig="hash:" + kind)
            if ctx.out_of_time():
                return
        return
    if shard["sub"] == "scripted":
        for name in SCRIPTED:
            for label, script in scripts():
                case = {"sub": "scripted", "routine": name, "seed": ctx.seed, "script": script, "label": label}
                msgs = eval_scripted(case)
                ctx.ok(True, "sampling-scripted:" + label, n=len(CONFIGS))
                if msgs:
                    ctx.fail(case, "%s with digits %s: %s" % (name, label, "; ".join(msgs[:3])), sig="sampling:%s" % name)
        return
    name = shard["routine"]
    menu, default = menus(ctx.seed)
    L = ffi.lib("asm")
    part, parts = shard["part"], shard["parts"]
    positions = 10
    bound = 2
    count = [0]

    def run(st):
        st.obs = run_routine(L, name, st)

    for choices, st in envexp.explore(run, default, menu, bound, positions, root_filter=lambda pos: pos % parts == part, emit_root=(part == 0)):
        count[0] += 1
        case = {"sub": "sampling", "routine": name, "seed": ctx.seed, "choices": {str(k): v for k, v in choices.items()}}
        py = (count[0] % 16 == 1)
        case["python"] = py
        if count[0] % 8 == 1 or ctx.tier == "thorough":
            case["cfgs"] = CONFIGS
        msgs = []
        if st.overrun:
            msgs.append("did not terminate within %d requests" % st.horizon)
        else:
            msgs += postconditions(L, name, st.obs, py)
            if "cfgs" in case:
                msgs += eval_sampling(dict(case, cfgs=["c64", "c32"], python=False))
            # determinism on the primary back end
            st2 = envexp.Stream(choices, default, menu)
            if run_routine(L, name, st2) != st.obs:
                msgs.append("not deterministic for the same random stream")
        rejections = len(st.requests)
        ctx.ok(len(choices) > 0, "sampling:%s:dev%d" % (name, len(choices)))
        ctx.extra["sampling_requests_max"] = max(ctx.extra.get("sampling_requests_max", 0), rejections)
        ctx.sample(case, limit=1)
        if msgs:
            ctx.fail(case, "; ".join(msgs[:3]), sig="sampling:%s" % name)
        if ctx.out_of_time():
            return


def replay(ctx, case):
    return eval_case(case)


def finish(merged, cov):
    o = merged.outcomes
    for need in ("hash:scalar:scalar", "hash:g1:all-zero", "hash:g2:top-bits", "hash:id:all-zero", "reject-run", "hash:g1:miss-run-19", "hash:g1:miss-run-16", "hash:g2:miss-run-18", "hash:id:miss-run-16"):
        if not o.get(need):
            return "outcome class %s never exercised" % need
    # every sampler must have been run under deviating answers; HOW MANY deviations fit into its first requests depends on the way the
    # library consumes the random source (one large request leaves room for one), which the property does not fix
    for routine in ("g1_random", "g2_random", "random_zpstar_powers", "gt_multiply_random"):
        if not any(k.startswith("sampling:%s:dev" % routine) and not k.endswith(":dev0") and v for k, v in o.items()):
            return "sampler %s never run under a deviating answer" % routine
    if not any(k.startswith("hash:g1:miss-run") for k in o):
        return "no miss runs exercised"
    cov["states"] = merged.evaluations
    cov["transitions"] = merged.evaluations
    cov["traces_validated_against_impl"] = merged.evaluations
    return None
