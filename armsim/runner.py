"""Engine I: runs the AArch64 / ARMv6-M assembly *sources* of the repository through the interpreters on the boundary
alphabets and compares results + flags with integer arithmetic (the same spec the native back ends are held to)."""
import itertools
import os

from vlib import alpha, build, ref
from . import a64, thumb
from .a64 import Memory, SimError

q = ref.q
W = 1 << 384
INV64 = (-pow(q, -1, 2**64)) % 2**64
INV32 = (-pow(q, -1, 2**32)) % 2**32

OUT, A, B, P, T, STACK_TOP = 0x10000, 0x20000, 0x30000, 0x40000, 0x50000, 0x70000
PFX = {"aarch64": "embedded_pairing_core_arch_aarch64_", "armv6m": "embedded_pairing_core_arch_armv6_m_"}

# routine -> (kind, aliasing patterns allowed by the C++ signature)
ROUTINES = {
    "bigint_384_add": ("bin", ["none", "out=a"]),
    "bigint_384_subtract": ("bin", ["none", "out=a"]),
    "bigint_384_multiply2": ("un", ["none", "out=a"]),
    "bigint_768_multiply": ("bin", ["none"]),
    "bigint_768_square": ("un", ["none"]),
    "fpbase_384_multiply": ("bin", ["none", "out=a", "out=b", "a=b", "out=a=b"]),
    "fpbase_384_square": ("un", ["none", "out=a"]),
    "fpbase_384_montgomery_reduce": ("red", ["none"]),
}

_SIMS = {}
_BIND = {}
POISON = 0xBAD0000
USE_GLUE = os.environ.get("VERIF_ARM_GLUE", "1") != "0"


GLUE_NU = "GLUE-NOT-UNDERSTOOD: "


class GlueNotUnderstood(Exception):
    pass


def binding(arch, routine):
    if not USE_GLUE:
        return None
    if arch not in _BIND:
        from . import glue
        _BIND[arch] = glue.bindings(arch)
    b = _BIND[arch]
    if "*" in b:
        raise SimError(b["*"]["error"])
    return b[routine]


def sim(arch):
    if arch not in _SIMS:
        d = os.path.join(build.REPO, "src/core/arch", "aarch64" if arch == "aarch64" else "armv6_m")
        text = ""
        for f in ("bigint.s", "multiply.s"):
            text += open(os.path.join(d, f)).read() + "\n"
        if arch == "aarch64":
            _SIMS[arch] = a64.A64(text)
        else:
            _SIMS[arch] = thumb.Thumb(text, externals={PFX["armv6m"] + "fpbase_384_reduce": _ext_reduce})
    return _SIMS[arch]


def _ext_reduce(r, mem):
    """FpBase<384>::reduce(res = r0, a = r1, p = r2): a - p if a >= p else a (host semantics of the C++ member)."""
    a = sum(mem.load(r[1] + 4 * i, 4) << (32 * i) for i in range(12))
    p = sum(mem.load(r[2] + 4 * i, 4) << (32 * i) for i in range(12))
    v = a - p if a >= p else a
    for i in range(12):
        mem.store(r[0] + 4 * i, 4, (v >> (32 * i)) & 0xFFFFFFFF)


def spec(routine, a, b):
    """(value, flag or None); None result = outside the property's domain"""
    if routine == "bigint_384_add":
        return (a + b) % W, (a + b) >> 384
    if routine == "bigint_384_subtract":
        return (a - b) % W, 1 if a < b else 0
    if routine == "bigint_384_multiply2":
        return (2 * a) % W, a >> 383
    if routine == "bigint_768_multiply":
        return a * b, None
    if routine == "bigint_768_square":
        return a * a, None
    if routine in ("fpbase_384_multiply", "fpbase_384_square"):
        t = a * (a if routine.endswith("square") else b)
        if t >= q * W:
            return None
        return t * pow(W, -1, q) % q, None
    if routine == "fpbase_384_montgomery_reduce":
        if a >= q * W:
            return None
        return a * pow(W, -1, q) % q, None
    raise ValueError(routine)


def execute(arch, routine, a, b, alias, movflags=False):
    """Runs one routine; returns (value, flag, steps). Raises SimError for memory-discipline / convention violations."""
    s = sim(arch)
    kind, _ = ROUTINES[routine]
    outlen = 96 if routine.startswith("bigint_768") else 48
    mem = Memory()
    a_addr, b_addr, out_addr = A, B, OUT
    if alias in ("a=b", "out=a=b"):
        b_addr = A
        b = a
    if alias in ("out=a", "out=a=b"):
        out_addr = A
    if alias == "out=b":
        out_addr = B
    if kind == "red":
        mem.add(T, a.to_bytes(96, "little"), True, "t")      # void* a: the routine may use it as scratch
    else:
        mem.add(A, a.to_bytes(48, "little"), out_addr == A, "a")
        if kind == "bin" and b_addr == B:
            mem.add(B, b.to_bytes(48, "little"), out_addr == B, "b")
    if out_addr == OUT:
        mem.add(OUT, b"\xCD" * outlen, True, "out")
    mem.add(P, q.to_bytes(48, "little"), False, "p")
    mem.add(STACK_TOP - 4096, b"\xEE" * 4096, True, "stack")
    above = b"\xDD" * 64            # ARMv6-M: the fifth argument (inv_word of fpbase_384_multiply) is placed at [sp] below
    inv = INV64 if arch == "aarch64" else INV32
    # the member's own operands, in the order of its signature (this, a[, b], p, inv_word)
    if routine in ("bigint_384_add", "bigint_384_subtract", "bigint_768_multiply"):
        margs = [out_addr, a_addr, b_addr]
    elif routine in ("bigint_384_multiply2", "bigint_768_square"):
        margs = [out_addr, a_addr]
    elif routine == "fpbase_384_multiply":
        margs = [out_addr, a_addr, b_addr, P, inv]
    elif routine == "fpbase_384_square":
        margs = [out_addr, a_addr, P, inv]
    else:
        margs = [out_addr, T, P, inv]
    # what the C++ glue (include/core/arch/*, compiled for the target) really calls, and with which arguments
    bnd = binding(arch, routine)
    if bnd is None:
        label, args = PFX[arch] + routine, list(margs)
    else:
        if bnd["error"]:
            raise GlueNotUnderstood(bnd["error"])
        label = bnd["callee"]
        args = []
        for v in bnd["args"]:
            if v[0] == "arg" and v[1] < len(margs):
                args.append((margs[v[1]] + v[2]) & (2**64 - 1))
            elif v[0] == "const":
                args.append(v[1] & (2**64 - 1))
            else:
                args.append(POISON)          # the routine receives a register the glue never set: any use as a pointer faults
        if bnd["has_ret"] and bnd["ret"] != ("ret",):
            raise SimError("glue: the member does not return the routine's result (%s)" % (bnd["ret"],))
    nreg = 8 if arch == "aarch64" else 4
    if arch != "aarch64":
        above = (args[4] & 0xFFFFFFFF).to_bytes(4, "little") + b"\xDD" * 60 if len(args) > 4 else above
    mem.add(STACK_TOP, above, False, "caller-frame")
    if label not in s.prog.labels:
        raise SimError("glue: the member calls %s, which the assembly sources do not define" % label)
    if arch == "aarch64":
        regs, steps = s.run(label, args[:nreg], mem, STACK_TOP)
        ret = regs[0]
    else:
        regs, steps = s.run(label, args[:nreg], None, mem, STACK_TOP, mov_sets_flags=movflags)
        ret = regs[0]
    name = {OUT: "out", A: "a", B: "b"}[out_addr]
    val = int.from_bytes(mem.get(name)[:outlen], "little")
    # inputs that are not the output must be unchanged
    if kind != "red":
        if out_addr != A and int.from_bytes(mem.get("a"), "little") != a:
            raise SimError("input a modified")
        if kind == "bin" and b_addr == B and out_addr != B and int.from_bytes(mem.get("b"), "little") != b:
            raise SimError("input b modified")
    if int.from_bytes(mem.get("p"), "little") != q:
        raise SimError("modulus modified")
    if mem.get("caller-frame") != above:
        raise SimError("caller frame modified")
    return val, ret, steps


def glue_summary():
    """(number of member bindings traced, informational messages about non-identity bindings)"""
    from . import glue
    n, msgs = 0, []
    for arch in ("aarch64", "armv6m"):
        k, m = glue.audit(arch)
        n += k
        msgs += m
    return n, msgs


def eval_case(case):
    arch, routine = case["arch"], case["routine"]
    a = int(case["a"], 16)
    b = int(case.get("b", "0"), 16)
    alias = case.get("alias", "none")
    bb = a if alias in ("a=b", "out=a=b") else b
    sp = spec(routine, a, bb)
    if sp is None:
        return []
    msgs = []
    modes = [False, True] if arch == "armv6m" else [False]
    for mf in modes:
        try:
            val, ret, steps = execute(arch, routine, a, b, alias, mf)
        except GlueNotUnderstood as e:
            return [GLUE_NU + str(e)]
        except SimError as e:
            msgs.append("%s %s [%s]: %s" % (arch, routine, alias, e))
            continue
        if val != sp[0]:
            msgs.append("%s %s [%s]%s(%x, %x): got %x expected %x" % (arch, routine, alias, " mov-sets-flags" if mf else "", a, bb, val, sp[0]))
        if sp[1] is not None and ret != sp[1]:
            msgs.append("%s %s [%s](%x, %x): returned flag %d expected %d" % (arch, routine, alias, a, bb, ret, sp[1]))
    return msgs


# ------------------------------------------------------------------------------------------ enumeration
def operand_sets(seed, tier):
    Bq = alpha.boundary(q, 384, seed, nfill=2 if tier == "quick" else 6)
    extra = [W - 1, W - 2, 2**383, 2**383 - 1, 2**383 + 1, (2**383 | (2**383 - 2**319)), q, q + 1, 2 * q - 1, W - q]
    small = alpha.dedup(Bq[:: max(1, len(Bq) // (22 if tier == "quick" else 40))] + extra)
    lp = alpha.limb_product(q, 6, 3)
    lp = lp[:: (6 if tier == "quick" else 1)]
    return small, alpha.dedup(lp)


def shards(ctx):
    out = []
    for arch in ("aarch64", "armv6m"):
        for routine in ROUTINES:
            for part in range(4):
                out.append({"sub": "arm", "arch": arch, "routine": routine, "part": part, "parts": 4})
    return out


def cases_for(ctx, arch, routine):
    small, lp = operand_sets(ctx.seed, ctx.tier)
    kind, aliases = ROUTINES[routine]
    cases = []
    if kind == "bin":
        pairs = list(itertools.product(small, small)) + alpha.targeted_pairs(q, 384, small[:12])
        pairs += [(a, b) for a in lp for b in small[:3]] + [(b, a) for a in lp for b in small[:3]]
        if routine.startswith("bigint_384"):
            pairs += [(a, W - a - 1) for a in small] + [(a, (W - a) % W) for a in small] + [(a, (W - a + 1) % W) for a in small]
        pairs = alpha.dedup(pairs)
        if arch == "armv6m" and routine in ("bigint_768_multiply", "fpbase_384_multiply") and ctx.tier == "quick":
            pairs = pairs[::3]
        for a, b in pairs:
            cases.append({"sub": "arm", "arch": arch, "routine": routine, "a": "%x" % a, "b": "%x" % b, "alias": "none"})
        for al in aliases[1:]:
            for a, b in pairs[:: max(1, len(pairs) // 40)]:
                cases.append({"sub": "arm", "arch": arch, "routine": routine, "a": "%x" % a, "b": "%x" % b, "alias": al})
    elif kind == "un":
        for a in alpha.dedup(small + lp):
            for al in aliases:
                cases.append({"sub": "arm", "arch": arch, "routine": routine, "a": "%x" % a, "alias": al})
    else:
        from checks import c02
        Ts = c02.crafted_reduction_inputs(q, 384, ctx.seed, "quick")
        step = 8 if ctx.tier == "quick" else 1
        if arch == "armv6m":
            step *= 2
        for Tv in Ts[::step]:
            cases.append({"sub": "arm", "arch": arch, "routine": routine, "a": "%x" % Tv, "alias": "none"})
    return cases


def run_shard(ctx, shard):
    arch, routine = shard["arch"], shard["routine"]
    cases = cases_for(ctx, arch, routine)[shard["part"]::shard["parts"]]
    for case in cases:
        if ctx.out_of_time():
            return
        msgs = eval_case(case)
        if msgs and msgs[0].startswith(GLUE_NU):
            # the compiled glue has a shape the symbolic tracker cannot follow: a limitation of the harness, never a verdict
            ctx.ok(False, "arm:glue-not-understood")
            ctx.notes.append("%s %s: %s" % (arch, routine, msgs[0]))
            return
        a = int(case["a"], 16)
        ctx.ok(a > 1, "arm:%s:%s" % (arch, routine))
        ctx.sample(case, limit=1)
        if msgs:
            ctx.fail(case, "; ".join(msgs), sig="arm:%s:%s" % (arch, routine))


# ------------------------------------------------------------------------------------------ expander cross-check (AArch64)
def xcheck_aarch64():
    """The macro expander's instruction stream must equal what LLVM assembles from the same file (clang can assemble the
    AArch64 sources on this host; nothing can run them). Returns (instructions compared, [messages])."""
    import re
    import subprocess
    import tempfile
    from .expand import imm as _imm
    msgs = []
    total = 0
    d = os.path.join(build.REPO, "src/core/arch/aarch64")
    for f in ("bigint.s", "multiply.s"):
        prog = a64.A64(open(os.path.join(d, f)).read())
        with tempfile.TemporaryDirectory(prefix="a64x") as tmp:
            obj = os.path.join(tmp, "o.o")
            p = subprocess.run(["clang", "-target", "aarch64-linux-gnu", "-c", os.path.join(d, f), "-o", obj], stdout=subprocess.PIPE, stderr=subprocess.PIPE, text=True)
            if p.returncode != 0:
                return total, ["clang cannot assemble %s: %s" % (f, p.stderr[-300:])]
            dis = subprocess.run(["llvm-objdump-14", "-d", "--no-show-raw-insn", obj], stdout=subprocess.PIPE, text=True).stdout
        theirs = []
        for line in dis.splitlines():
            m = re.match(r"^\s*([0-9a-f]+):\s+(\S+)\s*(.*)$", line)
            if m:
                theirs.append((int(m.group(1), 16) // 4, m.group(2), m.group(3).strip()))

        def R(x):
            return a64.reg(x)

        def canon_theirs(idx, mn, ops):
            o = [t.strip() for t in re.split(r",\s*(?![^\[]*\])", ops)] if ops else []
            if mn == "cmn":
                return ("adds", 31, R(o[0]), ("r", R(o[1])))
            if mn == "cmp":
                return ("subs", 31, R(o[0]), ("i", _imm(o[1])) if o[1].startswith("#") else ("r", R(o[1])))
            if mn in ("adds", "adcs", "subs", "sbcs", "add", "sub", "mul", "umulh"):
                return (mn, R(o[0]), R(o[1]), ("i", _imm(o[2])) if o[2].startswith("#") else ("r", R(o[2])))
            if mn == "ngcs":
                return ("sbcs", R(o[0]), 31, ("r", R(o[1])))
            if mn == "mov":
                return ("mov", R(o[0]), ("i", _imm(o[1])) if o[1].startswith("#") else ("r", R(o[1])))
            if mn == "cset":
                c = {"hs": "cs", "lo": "cc"}.get(o[1], o[1])
                return ("cset", R(o[0]), c)
            if mn.startswith("b."):
                tgt = int(re.match(r"0x([0-9a-f]+)", o[0]).group(1), 16) // 4
                return ("b", mn[2:], tgt)
            if mn == "ret":
                return ("ret",)
            if mn in ("ldp", "stp"):
                return (mn, R(o[0]), R(o[1]), prog._mem(o[2:]))
            if mn in ("ldr", "str"):
                return (mn, R(o[0]), prog._mem(o[1:]))
            return ("?", mn, ops)

        def canon_ours(ins):
            op = ins[0]
            if op == "b":
                return ("b", {"hs": "cs", "lo": "cc"}.get(ins[1], ins[1]) if False else ins[1], prog.prog.labels[ins[2]])
            if op == "cset":
                return ("cset", ins[1], {"hs": "cs", "lo": "cc"}.get(ins[2], ins[2]))
            return tuple(ins[:-1])
        ours = [canon_ours(i) for i in prog.code]
        if len(ours) != len(theirs):
            msgs.append("%s: expander yields %d instructions, LLVM assembles %d" % (f, len(ours), len(theirs)))
            continue
        for k, (mine, (idx, mn, ops)) in enumerate(zip(ours, theirs)):
            t = canon_theirs(idx, mn, ops)
            total += 1
            if mine != t:
                msgs.append("%s: instruction %d differs: expander %s vs LLVM %s (%s %s)" % (f, k, mine, t, mn, ops))
                if len(msgs) > 5:
                    break
    return total, msgs
