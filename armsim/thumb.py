"""Interpreter for the ARMv6-M (Thumb-1, GNU divided syntax) subset used by src/core/arch/armv6_m/*.s.

Divided-syntax rules (DESIGN.md appendix A): the 16-bit ALU forms on low registers set flags (add/adc/sub/sbc/neg/
mul/lsl/lsr/eor); mov/add involving a high register or sp do not. `mov` between two low registers is assembler-specific
(plain MOV on ARMv6-M, ADDS Rd,Rm,#0 on older cores): selected by mov_sets_flags and run both ways by the checks."""
import re

from .a64 import Memory, SimError
from .expand import Program, imm

M32 = 0xFFFFFFFF
SP, LR, PC = 13, 14, 15


def reg(s):
    s = s.strip().lower()
    if s == "sp":
        return SP
    if s == "lr":
        return LR
    if s == "pc":
        return PC
    if s[0] == "r" and s[1:].isdigit() and int(s[1:]) <= 12:
        return int(s[1:])
    raise SimError("unsupported register " + s)


def reglist(s):
    s = s.strip()
    assert s[0] == "{" and s[-1] == "}", s
    out = []
    for part in s[1:-1].split(","):
        part = part.strip()
        if "-" in part:
            a, b = part.split("-")
            out += list(range(reg(a), reg(b) + 1))
        else:
            out.append(reg(part))
    if out != sorted(out):
        raise SimError("register list not ascending: " + s)
    return out


class Thumb:
    def __init__(self, text, externals=None):
        self.prog = Program(text, "thumb")
        self.externals = externals or {}
        self.code = [self._decode(m, ops, src) for (m, ops, src) in self.prog.instrs]

    def _decode(self, m, ops, src):
        if m in ("push", "pop"):
            return (m, reglist(",".join(ops)), src)
        if m in ("ldm", "stm"):
            base = ops[0].strip()
            if not base.endswith("!"):
                raise SimError("ldm/stm without write-back: " + src)
            return (m, reg(base[:-1]), reglist(",".join(ops[1:])), src)
        if m in ("ldr", "str"):
            a = ops[1].replace(" ", "")
            mm = re.match(r"^\[(\w+)(?:,#(.+))?\]$", a)
            if not mm:
                raise SimError("unsupported addressing: " + src)
            off = imm(mm.group(2)) if mm.group(2) else 0
            if off % 4 or off < 0:
                raise SimError("unencodable offset: " + src)
            return (m, reg(ops[0]), reg(mm.group(1)), off, src)
        if m in ("add", "sub", "adc", "sbc", "mul", "eor"):
            if len(ops) == 2:
                ops = [ops[0], ops[0], ops[1]]
            o2 = ops[2].strip()
            if o2.startswith("#"):
                return (m, reg(ops[0]), reg(ops[1]), ("i", imm(o2)), src)
            return (m, reg(ops[0]), reg(ops[1]), ("r", reg(o2)), src)
        if m in ("lsl", "lsr"):
            o2 = ops[2].strip()
            if not o2.startswith("#"):
                raise SimError("register shifts unsupported: " + src)
            return (m, reg(ops[0]), reg(ops[1]), imm(o2), src)
        if m in ("mov", "neg", "uxth"):
            return (m, reg(ops[0]), reg(ops[1]), src)
        if m == "bl":
            return ("bl", ops[0].strip(), src)
        if m == "bx":
            if reg(ops[0]) != LR:
                raise SimError("bx to non-lr: " + src)
            return ("bx", src)
        raise SimError("unsupported instruction: " + src)

    def run(self, label, args, stack_args, mem, sp, mov_sets_flags=False, max_steps=400000):
        """args: r0..r3; stack_args are already in memory at [sp]. Returns (registers, steps)."""
        r = [(0xA5A50000 + 0x0101 * i) & M32 for i in range(16)]
        for i, a in enumerate(args):
            r[i] = a & M32
        r[SP] = sp
        RET = 0xFFFFFFF1
        r[LR] = RET
        saved = {i: r[i] for i in range(4, 12)}
        entry_sp = sp
        N = Z = C = V = 0
        pc = self.prog.labels[label]
        code = self.code
        steps = 0
        low = lambda i: i < 8

        def setnz(v):
            nonlocal N, Z
            N = v >> 31
            Z = 1 if v == 0 else 0

        while True:
            steps += 1
            if steps > max_steps:
                raise SimError("step limit")
            if pc >= len(code):
                raise SimError("ran off the end of the text")
            ins = code[pc]
            pc += 1
            op = ins[0]
            if op in ("add", "sub", "adc", "sbc"):
                _, d, n, o2, src = ins
                a = r[n]
                b = o2[1] if o2[0] == "i" else r[o2[1]]
                regs_low = low(d) and low(n) and (o2[0] == "i" or low(o2[1]))
                if op in ("adc", "sbc") and (not regs_low or d != n or o2[0] == "i"):
                    raise SimError("unencodable adc/sbc: " + src)
                if (d == SP or n == SP) or not regs_low:
                    # ADD Rd, SP, #imm / ADD|SUB SP, SP, #imm / ADD Rdn, Rm with a high register: no flags
                    if op == "add":
                        r[d] = (a + b) & M32
                    elif op == "sub" and d == SP and n == SP and o2[0] == "i":
                        r[d] = (a - b) & M32
                    else:
                        raise SimError("unencodable: " + src)
                    continue
                if op == "add":
                    full = a + b
                elif op == "adc":
                    full = a + b + C
                elif op == "sub":
                    full = a + ((~b) & M32) + 1
                else:
                    full = a + ((~b) & M32) + C
                res = full & M32
                C = 1 if full > M32 else 0
                setnz(res)
                r[d] = res
            elif op == "mul":
                _, d, n, o2, src = ins
                if not (low(d) and low(n) and o2[0] == "r" and low(o2[1])) or (d != n and d != o2[1]):
                    raise SimError("unencodable mul: " + src)
                res = (r[n] * r[o2[1]]) & M32
                setnz(res)      # C unchanged on ARMv6-M
                r[d] = res
            elif op == "eor":
                _, d, n, o2, src = ins
                if d != n or o2[0] != "r":
                    raise SimError("unencodable eor: " + src)
                res = r[n] ^ r[o2[1]]
                setnz(res)
                r[d] = res
            elif op in ("lsl", "lsr"):
                _, d, m_, sh, src = ins
                v = r[m_]
                if op == "lsl":
                    if not 0 <= sh <= 31:
                        raise SimError("bad shift: " + src)
                    if sh:
                        C = (v >> (32 - sh)) & 1
                    res = (v << sh) & M32
                else:
                    if not 1 <= sh <= 32:
                        raise SimError("bad shift: " + src)
                    C = (v >> (sh - 1)) & 1
                    res = v >> sh if sh < 32 else 0
                setnz(res)
                r[d] = res
            elif op == "mov":
                _, d, m_, src = ins
                v = r[m_]
                if low(d) and low(m_) and mov_sets_flags:
                    C = 0           # ADDS Rd, Rm, #0
                    V = 0
                    setnz(v)
                r[d] = v
            elif op == "neg":
                _, d, m_, src = ins
                full = ((~r[m_]) & M32) + 1
                res = full & M32
                C = 1 if full > M32 else 0
                setnz(res)
                r[d] = res
            elif op == "uxth":
                _, d, m_, src = ins
                r[d] = r[m_] & 0xFFFF
            elif op == "ldr":
                _, t, n, off, src = ins
                if mem.below_sp((r[n] + off) & M32, r[SP]):
                    raise SimError("load below the stack pointer (an interrupt's register stacking overwrites that memory): " + src)
                r[t] = mem.load((r[n] + off) & M32, 4)
            elif op == "str":
                _, t, n, off, src = ins
                if mem.below_sp((r[n] + off) & M32, r[SP]):
                    raise SimError("store below the stack pointer (an interrupt's register stacking overwrites that memory): " + src)
                mem.store((r[n] + off) & M32, 4, r[t])
            elif op == "ldm":
                _, n, lst, src = ins
                addr = r[n]
                if mem.below_sp(addr, r[SP]):
                    raise SimError("ldm below the stack pointer: " + src)
                for k, t in enumerate(lst):
                    r[t] = mem.load(addr + 4 * k, 4)
                if n not in lst:
                    r[n] = (addr + 4 * len(lst)) & M32
            elif op == "stm":
                _, n, lst, src = ins
                addr = r[n]
                if mem.below_sp(addr, r[SP]):
                    raise SimError("stm below the stack pointer: " + src)
                for k, t in enumerate(lst):
                    mem.store(addr + 4 * k, 4, r[t])
                r[n] = (addr + 4 * len(lst)) & M32
            elif op == "push":
                _, lst, src = ins
                addr = (r[SP] - 4 * len(lst)) & M32
                for k, t in enumerate(lst):
                    mem.store(addr + 4 * k, 4, r[t])
                r[SP] = addr
            elif op == "pop":
                _, lst, src = ins
                addr = r[SP]
                ret = False
                for k, t in enumerate(lst):
                    v = mem.load(addr + 4 * k, 4)
                    if t == PC:
                        if v != RET:
                            raise SimError("pop pc with a corrupted return address")
                        ret = True
                    else:
                        r[t] = v
                r[SP] = (addr + 4 * len(lst)) & M32
                if ret:
                    break
            elif op == "bl":
                _, target, src = ins
                if target not in self.externals:
                    raise SimError("call to unknown external " + target)
                self.externals[target](r, mem)
                # AAPCS: the callee may clobber r0-r3, r12, lr and the flags
                r[0], r[1], r[2], r[3], r[12] = 0xDEAD0000, 0xDEAD0001, 0xDEAD0002, 0xDEAD0003, 0xDEAD000C
                r[LR] = 0xDEAD000E
                N, Z, C, V = 1, 0, 1, 1
            elif op == "bx":
                if r[LR] != RET:
                    raise SimError("bx lr with a clobbered lr")
                break
            else:
                raise SimError("unhandled " + str(ins))
        if r[SP] != entry_sp:
            raise SimError("stack pointer not restored")
        for i, v in saved.items():
            if r[i] != v:
                raise SimError("callee-saved r%d clobbered" % i)
        return r, steps
