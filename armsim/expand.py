"""GNU-as macro expander for the subset used by the ARM sources of jedi-pairing.

Handles .macro/.endm (arguments separated by commas and/or blanks), \\arg substitution, nested macro calls,
comments (@, //, # at line start), labels. Returns {global label: [instruction strings]} where every routine runs
from its label to the end of its text (falling through local labels), plus a map label -> index."""
import re


def strip_comment(line, style):
    if style == "thumb":
        line = line.split("@", 1)[0]
    line = line.split("//", 1)[0]
    s = line.strip()
    if s.startswith("#"):
        return ""
    return s


def split_args(s):
    """split on commas and blanks outside brackets"""
    out, cur, depth = [], "", 0
    for ch in s:
        if ch in "([{":
            depth += 1
        elif ch in ")]}":
            depth -= 1
        if depth == 0 and (ch == "," or ch.isspace()):
            if cur:
                out.append(cur)
                cur = ""
        else:
            cur += ch
    if cur:
        out.append(cur)
    return out


def split_operands(s):
    """split instruction operands on commas outside brackets"""
    out, cur, depth = [], "", 0
    for ch in s:
        if ch in "([{":
            depth += 1
        elif ch in ")]}":
            depth -= 1
        if depth == 0 and ch == ",":
            out.append(cur.strip())
            cur = ""
        else:
            cur += ch
    if cur.strip():
        out.append(cur.strip())
    return out


class Program:
    def __init__(self, text, style):
        self.style = style
        self.macros = {}
        self.instrs = []        # (mnemonic, [operands], source text)
        self.labels = {}        # label -> index into instrs
        self.globals = []
        self._parse(text)

    def _parse(self, text):
        lines = [strip_comment(l, self.style) for l in text.splitlines()]
        i = 0
        body = []
        while i < len(lines):
            l = lines[i]
            i += 1
            if not l:
                continue
            if l.startswith(".macro"):
                parts = split_args(l[len(".macro"):])
                name, params = parts[0], parts[1:]
                mbody = []
                while not lines[i].startswith(".endm"):
                    if lines[i]:
                        mbody.append(lines[i])
                    i += 1
                i += 1
                self.macros[name] = (params, mbody)
                continue
            body.append(l)
        for l in body:
            self._emit(l, 0)

    def _emit(self, l, depth):
        if depth > 20:
            raise ValueError("macro recursion")
        m = re.match(r"^([A-Za-z_.$][\w.$]*):\s*(.*)$", l)
        if m:
            self.labels[m.group(1)] = len(self.instrs)
            l = m.group(2).strip()
            if not l:
                return
        if l.startswith("."):
            d = l.split()
            if d[0] in (".globl", ".global"):
                self.globals.append(d[1])
            elif d[0] in (".type", ".text", ".thumb", ".align", ".syntax", ".cpu", ".size", ".section", ".p2align"):
                pass
            else:
                raise ValueError("unsupported directive: " + l)
            return
        parts = l.split(None, 1)
        name = parts[0]
        rest = parts[1] if len(parts) > 1 else ""
        if name in self.macros:
            params, mbody = self.macros[name]
            args = split_args(rest)
            if len(args) != len(params):
                raise ValueError("macro %s expects %d args, got %d: %s" % (name, len(params), len(args), l))
            # substitute longest names first
            order = sorted(range(len(params)), key=lambda k: -len(params[k]))
            for ml in mbody:
                for k in order:
                    ml = ml.replace("\\" + params[k], args[k])
                if "\\" in ml:
                    raise ValueError("unsubstituted macro argument in: " + ml)
                self._emit(ml, depth + 1)
            return
        self.instrs.append((name.lower(), split_operands(rest), l))


_SAFE = re.compile(r"^[0-9xXa-fA-F+\-*() ]+$")


def imm(s):
    s = s.strip()
    if s.startswith("#"):
        s = s[1:]
    if not _SAFE.match(s):
        raise ValueError("bad immediate: " + s)
    return int(eval(s, {"__builtins__": {}}, {}))
