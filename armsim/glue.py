"""Engine I, binding audit: the C++ glue that binds BigInt<384>/BigInt<768>/FpBase<384> members to the ARM assembly routines.

The arch headers' template specialisations cannot run on this host.  They are compiled here for aarch64-linux-gnu and
thumbv6m-none-eabi (clang cross-compiles without a sysroot: -ffreestanding + a stub <string.h>), one extern "C" wrapper per
specialised member, and every wrapper's object code is *executed symbolically up to its call*: registers start as the
symbols arg0..argN, stack slots are tracked, and at the bl/b the callee (from the relocation) and the argument registers /
outgoing stack slot are compared with what the member's signature requires (this -> res, a, b, p, inv_word, in that order;
return value passed through).  All wrappers x both architectures are enumerated (finite table, exhaustive)."""
import os
import re
import subprocess
import tempfile

from vlib import build

STUB_STRING_H = """#pragma once
#include <stddef.h>
extern "C" { void* memcpy(void*, const void*, size_t); void* memset(void*, int, size_t); int memcmp(const void*, const void*, size_t);
void* memmove(void*, const void*, size_t); size_t strlen(const char*); }
"""

TU = r"""
#include "core/bigint.hpp"
#include "core/fp.hpp"
using namespace embedded_pairing::core;
typedef BigInt<384>::word_t word_t;
extern "C" {
bool glue_bigint_384_add(BigInt<384>* r, const BigInt<384>* a, const BigInt<384>* b) { return r->add(*a, *b); }
bool glue_bigint_384_subtract(BigInt<384>* r, const BigInt<384>* a, const BigInt<384>* b) { return r->subtract(*a, *b); }
word_t glue_bigint_384_multiply2(BigInt<384>* r, const BigInt<384>* a) { return r->shift_left_in_word<1>(*a); }
void glue_bigint_768_multiply(BigInt<768>* r, const BigInt<384>* a, const BigInt<384>* b) { r->multiply(*a, *b); }
void glue_bigint_768_square(BigInt<768>* r, const BigInt<384>* a) { r->square(*a); }
void glue_fpbase_384_multiply(FpBase<384>* r, const FpBase<384>* a, const FpBase<384>* b, const BigInt<384>* p, word_t w) { r->multiply(*a, *b, *p, w); }
void glue_fpbase_384_square(FpBase<384>* r, const FpBase<384>* a, const BigInt<384>* p, word_t w) { r->square(*a, *p, w); }
void glue_fpbase_384_montgomery_reduce(FpBase<384>* r, BigInt<768>* a, const BigInt<384>* p, word_t w) { r->montgomery_reduce(*a, *p, w); }
}
"""

# wrapper -> (number of arguments, returns a value)
WRAPPERS = {
    "bigint_384_add": (3, True), "bigint_384_subtract": (3, True), "bigint_384_multiply2": (2, True),
    "bigint_768_multiply": (3, False), "bigint_768_square": (2, False),
    "fpbase_384_multiply": (5, False), "fpbase_384_square": (4, False), "fpbase_384_montgomery_reduce": (4, False),
}
ARCHS = {"aarch64": ("aarch64-linux-gnu", "embedded_pairing_core_arch_aarch64_", 8),
         "armv6m": ("thumbv6m-none-eabi", "embedded_pairing_core_arch_armv6_m_", 4)}


MAXARGS = 5


class GlueError(Exception):
    pass


def compile_glue(arch, workdir):
    """returns (objdump text, None) or (None, compiler error)"""
    triple = ARCHS[arch][0]
    os.makedirs(os.path.join(workdir, "stub"), exist_ok=True)
    with open(os.path.join(workdir, "stub", "string.h"), "w") as fh:
        fh.write(STUB_STRING_H)
    src = os.path.join(workdir, "glue.cpp")
    with open(src, "w") as fh:
        fh.write(TU)
    obj = os.path.join(workdir, "glue_%s.o" % arch)
    common = ["-std=c++17", "-ffreestanding", "-fno-exceptions", "-fno-rtti", "-O1", "-I", os.path.join(workdir, "stub"),
              "-I", os.path.join(build.REPO, "include"), "-c", src]
    p = subprocess.run(["clang++", "-target", triple] + common + ["-o", obj], stdout=subprocess.PIPE, stderr=subprocess.STDOUT, text=True)
    if p.returncode != 0:
        # is it the ARM configuration or the harness TU?  the same TU must compile for the host
        h = subprocess.run(["clang++"] + common + ["-fsyntax-only"], stdout=subprocess.PIPE, stderr=subprocess.STDOUT, text=True)
        if h.returncode != 0:
            raise build.BuildError("harness", "glue TU does not compile for the host either:\n" + h.stdout[-3000:])
        return None, p.stdout[-3000:]
    d = subprocess.run(["llvm-objdump", "-dr", "--no-show-raw-insn", obj], stdout=subprocess.PIPE, stderr=subprocess.STDOUT, text=True)
    if d.returncode != 0:
        raise build.BuildError("harness", "llvm-objdump failed: " + d.stdout[-2000:])
    return d.stdout, None


def split_functions(text):
    funcs = {}
    cur = None
    for line in text.splitlines():
        m = re.match(r"^[0-9a-f]+ <([^>]+)>:", line)
        if m:
            cur = funcs.setdefault(m.group(1), [])
            continue
        if cur is None:
            continue
        m = re.match(r"^\s+[0-9a-f]+:\s+(R_\w+)\s+(\S+)", line)
        if m:
            cur.append(("reloc", m.group(1), m.group(2)))
            continue
        m = re.match(r"^\s+[0-9a-f]+:\s+(.*)$", line)
        if m:
            ins = m.group(1).split("@")[0].split("//")[0].strip()
            if ins:
                cur.append(("ins", ins))
    return funcs


def _reg(arch, name):
    name = name.strip().lower()
    if arch == "aarch64":
        if name in ("sp", "wsp"):
            return "sp"
        if name in ("xzr", "wzr"):
            return "zr"
        if name == "fp":
            return "x29"
        if name == "lr":
            return "x30"
        m = re.match(r"^[xw](\d+)$", name)
        if m:
            return "x" + m.group(1)
    else:
        alias = {"fp": "r11", "ip": "r12", "sp": "sp", "lr": "lr", "pc": "pc"}
        if name in alias:
            return alias[name]
        if re.match(r"^r\d+$", name):
            return name
    raise GlueError("register %r" % name)


def _imm(s):
    s = s.strip().lstrip("#")
    return int(s, 0)


def trace_call(arch, items, nargs):
    """symbolic execution of one wrapper up to its call.  Values: ('arg', i, offset) | ('sp', offset) | ('ret',) | ('unk', why).
    Returns dict(callee, args=[values], ret=value at return or None)."""
    areg = (lambda i: "x%d" % i) if arch == "aarch64" else (lambda i: "r%d" % i)
    nreg = 8 if arch == "aarch64" else 4
    wsz = ARCHS[arch][2]
    regs = {}
    for i in range(min(nargs, nreg)):
        regs[areg(i)] = ("arg", i, 0)
    regs["sp"] = ("sp", 0)
    mem = {}                        # sp-relative offset -> value; incoming stack arguments live at offsets >= 0
    for i in range(nreg, nargs):
        mem[(i - nreg) * wsz] = ("arg", i, 0)
    called = None
    pending = None
    ret_at_exit = None

    def get(rn):
        if rn == "zr":
            return ("const", 0)
        return regs.get(rn, ("unk", "uninitialised " + rn))

    def addr(base, off):
        b = get(base)
        if b[0] != "sp":
            return None
        return b[1] + off

    def addv(v, k):
        if v[0] == "arg":
            return ("arg", v[1], v[2] + k)
        if v[0] == "sp":
            return ("sp", v[1] + k)
        if v[0] == "const":
            return ("const", v[1] + k)
        return ("unk", "arithmetic on " + str(v))

    def parse_mem(op):
        """'[x29, #16]' / '[sp]' / '[sp, #-16]!' -> (base, off, writeback)"""
        m = re.match(r"^\[([^\],]+)(?:,\s*#?(-?\w+))?\](!?)$", op.strip())
        if not m:
            raise GlueError("address %r" % op)
        return _reg(arch, m.group(1)), (int(m.group(2), 0) if m.group(2) else 0), bool(m.group(3))

    def split_ops(s):
        out, depth, cur = [], 0, ""
        for ch in s:
            if ch in "[{":
                depth += 1
            if ch in "]}":
                depth -= 1
            if ch == "," and depth == 0:
                out.append(cur.strip())
                cur = ""
            else:
                cur += ch
        if cur.strip():
            out.append(cur.strip())
        return out

    i = 0
    while i < len(items):
        it = items[i]
        i += 1
        if it[0] == "reloc":
            pending = it[2]
            continue
        ins = it[1]
        mn, _, rest = ins.partition("\t")
        if not rest:
            mn, _, rest = ins.partition(" ")
        mn = mn.strip().lower()
        ops = split_ops(rest)
        if mn in ("bl", "b", "b.w", "blx") and called is None:
            # the relocation line follows the instruction
            if i < len(items) and items[i][0] == "reloc":
                callee = items[i][2]
                i += 1
            else:
                callee = pending
            if callee is None:
                raise GlueError("branch without relocation: " + ins)
            args = []
            for k in range(MAXARGS):
                if k < nreg:
                    args.append(get(areg(k)))
                else:
                    args.append(mem.get(regs["sp"][1] + (k - nreg) * wsz, ("unk", "outgoing stack slot %d not written" % (k - nreg))))
            called = {"callee": callee, "args": args, "tail": mn in ("b", "b.w")}
            # after the call: caller-saved registers are dead, r0/x0 holds the callee's result
            for k in range(nreg):
                regs[areg(k)] = ("unk", "clobbered by the call")
            regs[areg(0)] = ("ret",)
            if called["tail"]:
                ret_at_exit = ("ret",)
                break
            continue
        try:
            if mn in ("mov", "movs", "mov.w"):
                d = _reg(arch, ops[0])
                if ops[1].startswith("#"):
                    regs[d] = ("const", _imm(ops[1]))
                else:
                    regs[d] = get(_reg(arch, ops[1]))
            elif mn in ("add", "adds", "sub", "subs") and len(ops) >= 2:
                d = _reg(arch, ops[0])
                if len(ops) == 2:
                    src, imm = d, ops[1]
                else:
                    src, imm = _reg(arch, ops[1]), ops[2]
                if imm.startswith("#") or re.match(r"^-?\d", imm):
                    k = _imm(imm)
                    regs[d] = addv(get(src), k if mn.startswith("add") else -k)
                else:
                    regs[d] = ("unk", ins)
            elif mn in ("stp", "ldp"):
                r1, r2 = _reg(arch, ops[0]), _reg(arch, ops[1])
                if len(ops) == 4:       # post-index: [sp], #16
                    base, off, wb = parse_mem(ops[2])
                    post = _imm(ops[3])
                else:
                    base, off, wb = parse_mem(ops[2])
                    post = None
                a0 = addr(base, 0 if post is not None else off)
                if a0 is None:
                    raise GlueError("stack access through a non-sp base: " + ins)
                if mn == "stp":
                    mem[a0], mem[a0 + 8] = get(r1), get(r2)
                else:
                    regs[r1], regs[r2] = mem.get(a0, ("unk", "load")), mem.get(a0 + 8, ("unk", "load"))
                if wb:
                    regs[base] = addv(get(base), off)
                if post is not None:
                    regs[base] = addv(get(base), post)
            elif mn in ("str", "ldr"):
                r1 = _reg(arch, ops[0])
                base, off, wb = parse_mem(ops[1])
                a0 = addr(base, off)
                if a0 is None:
                    if mn == "ldr":
                        regs[r1] = ("unk", ins)
                    else:
                        raise GlueError("store through a non-stack pointer before the call: " + ins)
                elif mn == "str":
                    mem[a0] = get(r1)
                else:
                    regs[r1] = mem.get(a0, ("unk", "load of an unwritten stack slot"))
            elif mn == "push":
                lst = [_reg(arch, x) for x in rest.strip().strip("{}").split(",")]
                sp = regs["sp"][1] - wsz * len(lst)
                for k, rn in enumerate(lst):
                    mem[sp + wsz * k] = get(rn)
                regs["sp"] = ("sp", sp)
            elif mn == "pop":
                lst = [_reg(arch, x) for x in rest.strip().strip("{}").split(",")]
                sp = regs["sp"][1]
                for k, rn in enumerate(lst):
                    if rn != "pc":
                        regs[rn] = mem.get(sp + wsz * k, ("unk", "pop"))
                regs["sp"] = ("sp", sp + wsz * len(lst))
                if "pc" in lst:
                    ret_at_exit = get(areg(0))
                    break
            elif mn in ("ret", "bx"):
                ret_at_exit = get(areg(0))
                break
            elif mn in ("and", "ands", "uxtb", "uxth", "uxtw", "lsls", "lsrs", "lsl", "lsr") and called is not None:
                d = _reg(arch, ops[0])
                srcs = [get(_reg(arch, o)) for o in ops[1:] if re.match(r"^[xwr]\d+$", o.strip().lower())] or [get(d)]
                # bool / word normalisation of the callee's result keeps it "the result"
                regs[d] = ("ret",) if all(s == ("ret",) for s in srcs) else ("unk", ins)
            elif mn in ("nop", "hint", "bti", "paciasp", "autiasp"):
                pass
            else:
                # unknown instruction: its destination (first operand, if a register) becomes unknown
                try:
                    regs[_reg(arch, ops[0])] = ("unk", ins)
                except (GlueError, IndexError):
                    raise GlueError("unsupported instruction in glue: " + ins)
        except (ValueError, IndexError) as e:
            raise GlueError("cannot parse %r (%s)" % (ins, e))
    if called is None:
        raise GlueError("no call found")
    called["ret"] = ret_at_exit
    return called


def bindings(arch):
    """{wrapper: {'callee', 'args' (MAXARGS symbolic values), 'ret', 'error'}} for every specialised member, or {'*': compile error}"""
    with tempfile.TemporaryDirectory(prefix="armglue") as d:
        text, err = compile_glue(arch, d)
    if text is None:
        return {"*": {"error": "the %s specialisations (include/core/arch) no longer compile for %s:\n%s" % (arch, ARCHS[arch][0], err)}}
    funcs = split_functions(text)
    out = {}
    for w, (nargs, has_ret) in WRAPPERS.items():
        items = funcs.get("glue_" + w)
        if items is None:
            raise build.BuildError("harness", "wrapper glue_%s missing from the object file" % w)
        try:
            c = trace_call(arch, items, nargs)
            c["error"] = None
        except GlueError as e:
            c = {"callee": None, "args": [], "ret": None, "error": "glue not understood by the symbolic tracker (%s)" % e}
        c["nargs"], c["has_ret"] = nargs, has_ret
        out[w] = c
    return out


def audit(arch):
    """static verdict only: (n_checked, [messages]) - the identity binding every wrapper has on the unchanged tree.  The deciding
    check is dynamic (runner.execute runs the routine the glue really calls with the arguments it really passes); this
    function is informational / used for the evidence counters."""
    b = bindings(arch)
    if "*" in b:
        return 0, [b["*"]["error"]]
    msgs = []
    pfx = ARCHS[arch][1]
    for w, c in b.items():
        if c["error"]:
            msgs.append("%s %s: %s" % (arch, w, c["error"]))
            continue
        if c["callee"] != pfx + w:
            msgs.append("%s: the member bound to %s calls %s" % (arch, pfx + w, c["callee"]))
        for k in range(c["nargs"]):
            if c["args"][k] != ("arg", k, 0):
                msgs.append("%s %s: argument %d of the assembly routine receives %s instead of the member's operand %d" % (arch, w, k, c["args"][k], k))
        if c["has_ret"] and c["ret"] != ("ret",):
            msgs.append("%s %s: the routine's carry/borrow/word result is not what the member returns (%s)" % (arch, w, c["ret"]))
    return len(b), msgs


if __name__ == "__main__":
    for a in ARCHS:
        print(a, audit(a))
