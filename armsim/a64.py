"""Interpreter for the AArch64 instruction subset used by src/core/arch/aarch64/*.s (see DESIGN.md appendix A).
Anything outside the subset is a hard error."""
import re
from .expand import Program, imm

M64 = (1 << 64) - 1


X18 = re.compile(r"\b[xw]18\b")


class SimError(Exception):
    pass


class Memory:
    """Byte-addressed memory made of named regions with read/write permissions."""

    def __init__(self):
        self.regions = []   # (lo, hi, bytearray, writable, name)

    def add(self, lo, data, writable, name):
        self.regions.append([lo, lo + len(data), bytearray(data), writable, name])

    def _find(self, addr, n, write):
        for r in self.regions:
            if r[0] <= addr and addr + n <= r[1]:
                if write and not r[3]:
                    raise SimError("store to read-only region %s at %#x" % (r[4], addr))
                return r
        raise SimError("%s outside every region at %#x (+%d)" % ("store" if write else "load", addr, n))

    def load(self, addr, n):
        r = self._find(addr, n, False)
        o = addr - r[0]
        return int.from_bytes(r[2][o:o + n], "little")

    def store(self, addr, n, v):
        r = self._find(addr, n, True)
        o = addr - r[0]
        r[2][o:o + n] = (v & ((1 << (8 * n)) - 1)).to_bytes(n, "little")

    def get(self, name):
        for r in self.regions:
            if r[4] == name:
                return bytes(r[2])
        raise KeyError(name)

    def below_sp(self, addr, sp):
        """True if addr lies in the routine's own stack area but BELOW the current stack pointer.  Neither AAPCS64 (Linux, bare metal)
        nor the ARMv6-M exception model has a red zone: a signal frame or an interrupt's register stacking overwrites that memory at
        any instruction boundary, so parking a value there is wrong for every input even though no input can show it."""
        for r in self.regions:
            if r[4] == "stack" and r[0] <= addr < r[1]:
                return addr < sp
        return False


def reg(s):
    s = s.strip().lower()
    if s == "xzr":
        return 31
    if s == "sp":
        return 32
    if s[0] == "x" and s[1:].isdigit() and int(s[1:]) <= 30:
        return int(s[1:])
    raise SimError("unsupported register " + s)


class A64:
    def __init__(self, text):
        self.prog = Program(text, "a64")
        self.code = [self._decode(m, ops, src) for (m, ops, src) in self.prog.instrs]

    # ------------------------------------------------------------------ decoding
    def _mem(self, ops):
        """parses the addressing part from the operand list tail: returns (base, offset, mode) mode in off/pre/post"""
        s = ",".join(ops).replace(" ", "")
        if s.endswith("!"):
            inner = s[1:s.index("]")]
            b, o = inner.split(",")
            return reg(b), imm(o), "pre"
        close = s.index("]")
        inner = s[1:close]
        rest = s[close + 1:]
        if rest:
            assert rest[0] == ","
            return reg(inner), imm(rest[1:]), "post"
        if "," in inner:
            b, o = inner.split(",")
            return reg(b), imm(o), "off"
        return reg(inner), 0, "off"

    def _decode(self, m, ops, src):
        if m in ("ldp", "stp"):
            return (m, reg(ops[0]), reg(ops[1]), self._mem(ops[2:]), src)
        if m in ("ldr", "str"):
            return (m, reg(ops[0]), self._mem(ops[1:]), src)
        if m in ("adds", "adcs", "subs", "sbcs", "add", "sub", "mul", "umulh"):
            o2 = ops[2].strip()
            if o2.startswith("#"):
                return (m, reg(ops[0]), reg(ops[1]), ("i", imm(o2)), src)
            return (m, reg(ops[0]), reg(ops[1]), ("r", reg(o2)), src)
        if m == "cmp":
            o2 = ops[1].strip()
            return ("subs", 31, reg(ops[0]), ("i", imm(o2)) if o2.startswith("#") else ("r", reg(o2)), src)
        if m == "mov":
            o2 = ops[1].strip()
            return ("mov", reg(ops[0]), ("i", imm(o2)) if o2.startswith("#") else ("r", reg(o2)), src)
        if m == "cset":
            return ("cset", reg(ops[0]), ops[1].strip().lower(), src)
        if m.startswith("b.") or m == "b":
            return ("b", m[2:] if m != "b" else "al", ops[0].strip(), src)
        if m == "ret":
            return ("ret", src)
        raise SimError("unsupported instruction: " + src)

    # ------------------------------------------------------------------ execution
    def run(self, label, args, mem, sp, max_steps=200000):
        """Executes from label until ret. args: initial x0..x7. Returns the final register file."""
        x = [0] * 33
        for i in range(33):
            x[i] = (0xA5A5000000000000 + i * 0x0101010101) & M64     # garbage in every register
        for i, a in enumerate(args):
            x[i] = a & M64
        x[31] = 0
        x[32] = sp
        callee_saved = {i: x[i] for i in range(19, 29)}
        entry_sp = sp
        N = Z = Cf = V = 0
        pc = self.prog.labels[label]
        steps = 0
        code = self.code

        def rd(i):
            return 0 if i == 31 else x[i]

        def cond(c):
            if c in ("cs", "hs"):
                return Cf == 1
            if c in ("cc", "lo"):
                return Cf == 0
            if c == "hi":
                return Cf == 1 and Z == 0
            if c == "ls":
                return not (Cf == 1 and Z == 0)
            if c == "eq":
                return Z == 1
            if c == "ne":
                return Z == 0
            if c == "al":
                return True
            raise SimError("unsupported condition " + c)

        while True:
            steps += 1
            if steps > max_steps:
                raise SimError("step limit")
            if pc >= len(code):
                raise SimError("ran off the end of the text")
            ins = code[pc]
            if X18.search(ins[-1]):
                # the sources' own register contract: "x18 is a platform register that should not be used in portable code" (it holds
                # per-thread platform state on Android, Fuchsia, Windows and under ShadowCallStack; a value parked there outlives the call)
                raise SimError("uses the platform register x18: " + ins[-1])
            pc += 1
            op = ins[0]
            if op in ("adds", "adcs", "subs", "sbcs", "add", "sub"):
                _, d, n, o2, _src = ins
                a = rd(n) if n != 32 else x[32]
                b = o2[1] if o2[0] == "i" else rd(o2[1])
                if op == "add":
                    r = (a + b) & M64
                elif op == "sub":
                    r = (a - b) & M64
                else:
                    if op == "adds":
                        full = a + b
                    elif op == "adcs":
                        full = a + b + Cf
                    elif op == "subs":
                        full = a + ((~b) & M64) + 1
                    else:
                        full = a + ((~b) & M64) + Cf
                    r = full & M64
                    Cf = 1 if full > M64 else 0
                    Z = 1 if r == 0 else 0
                    N = r >> 63
                if d == 32:
                    x[32] = r
                elif d != 31:
                    x[d] = r
            elif op == "mul":
                _, d, n, o2, _src = ins
                if d != 31:
                    x[d] = (rd(n) * rd(o2[1])) & M64
            elif op == "umulh":
                _, d, n, o2, _src = ins
                if d != 31:
                    x[d] = (rd(n) * rd(o2[1])) >> 64
            elif op in ("ldp", "stp"):
                _, r1, r2, (base, off, mode), _src = ins
                addr = x[base] if base == 32 else rd(base)
                if mode in ("pre", "off"):
                    ea = (addr + off) & M64
                else:
                    ea = addr
                if mem.below_sp(ea, ea if (mode == "pre" and base == 32) else x[32]):
                    raise SimError("%s at %#x below the stack pointer %#x (no red zone on this ABI): %s" % (op, ea, x[32], _src))
                if op == "ldp":
                    v1, v2 = mem.load(ea, 8), mem.load(ea + 8, 8)
                    if r1 != 31:
                        x[r1] = v1
                    if r2 != 31:
                        x[r2] = v2
                else:
                    mem.store(ea, 8, rd(r1))
                    mem.store(ea + 8, 8, rd(r2))
                if mode == "pre":
                    x[base] = ea
                elif mode == "post":
                    x[base] = (addr + off) & M64
            elif op in ("ldr", "str"):
                _, r1, (base, off, mode), _src = ins
                addr = x[base] if base == 32 else rd(base)
                ea = (addr + off) & M64 if mode in ("pre", "off") else addr
                if mem.below_sp(ea, ea if (mode == "pre" and base == 32) else x[32]):
                    raise SimError("%s at %#x below the stack pointer %#x (no red zone on this ABI): %s" % (op, ea, x[32], _src))
                if op == "ldr":
                    v = mem.load(ea, 8)
                    if r1 != 31:
                        x[r1] = v
                else:
                    mem.store(ea, 8, rd(r1))
                if mode == "pre":
                    x[base] = ea
                elif mode == "post":
                    x[base] = (addr + off) & M64
            elif op == "mov":
                _, d, o2, _src = ins
                v = o2[1] & M64 if o2[0] == "i" else (x[32] if o2[1] == 32 else rd(o2[1]))
                if d == 32:
                    x[32] = v
                elif d != 31:
                    x[d] = v
            elif op == "cset":
                _, d, c, _src = ins
                if d != 31:
                    x[d] = 1 if cond(c) else 0
            elif op == "b":
                _, c, target, _src = ins
                if cond(c):
                    if target not in self.prog.labels:
                        raise SimError("branch to unknown label " + target)
                    pc = self.prog.labels[target]
            elif op == "ret":
                break
            else:
                raise SimError("unhandled " + str(ins))
        if x[32] != entry_sp:
            raise SimError("stack pointer not restored")
        for i, v in callee_saved.items():
            if x[i] != v:
                raise SimError("callee-saved x%d clobbered" % i)
        return x, steps
