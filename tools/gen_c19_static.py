#!/usr/bin/env python3
"""Regenerates harness/c19_layout_static.cpp from harness/c19_layout.cpp: the same struct / member rows as a constant table (no stdio, no run
time), so that the table can be cross-compiled for data models this host cannot execute (ILP32 ARM, i386) and read back from the object file."""
import os
import re

V = os.path.dirname(os.path.dirname(os.path.abspath(__file__)))
src = open(os.path.join(V, "harness", "c19_layout.cpp")).read()
body = src[src.index("int main() {") + len("int main() {"):src.index("    /* exported constants")]
typedefs, rows = [], []
for line in body.splitlines():
    t = line.strip()
    if not t:
        continue
    if t.startswith("typedef"):
        typedefs.append(t)
        continue
    if t.startswith('printf("S word'):
        rows.append('R("S", "word", sizeof(embedded_pairing_core_bigint_word_t), alignof(embedded_pairing_core_bigint_word_t), sizeof(BigInt<384>::word_t), alignof(BigInt<384>::word_t))')
        continue
    if t.startswith('printf("S dword'):
        rows.append('R("S", "dword", sizeof(embedded_pairing_core_bigint_dword_t), alignof(embedded_pairing_core_bigint_dword_t), sizeof(BigInt<384>::dword_t), alignof(BigInt<384>::dword_t))')
        continue
    m = re.match(r'printf\("O (\S+) %zu %zu %zu %zu\\n", (.*)\);$', t)
    if m:
        rows.append('R("O", "%s", %s)' % (m.group(1), m.group(2)))
        continue
    if t.startswith("K("):
        continue
    for mm in re.finditer(r"\b([SO])\(((?:[^()]|\([^()]*\))*)\)", t):
        rows.append("%s(%s)" % (mm.group(1), mm.group(2)))
hdr = src[:src.index("#define S(name")]
tu = hdr.replace("#include <stdio.h>\n", "") + '''
struct Row { char kind[4]; char name[72]; unsigned v[4]; };
#define R(k, n, a, b, c, d) {k, n, {(unsigned) (a), (unsigned) (b), (unsigned) (c), (unsigned) (d)}},
#define S(name, CT, XT) R("S", name, sizeof(CT), alignof(CT), sizeof(XT), alignof(XT))
#define O(name, CT, cm, XT, xm) R("O", name "." #cm, probe_##cm::off<CT>(0), probe_##xm::off<XT>(0), probe_##cm::size<CT>(0), probe_##xm::size<XT>(0))
''' + src[src.index("/* A member that one side"):src.index("/*MEMBER-PROBES-END*/")] + "\n".join(typedefs) + '''
extern "C" const Row vk_layout_rows[] = {
''' + "\n".join("    " + r for r in rows) + '''
    {"E", "end", {0, 0, 0, 0}}
};
'''
tu = tu.replace("/*\n * C19 static part:", "/*\n * GENERATED from c19_layout.cpp by tools/gen_c19_static.py - do not edit.\n * C19 static part (cross-compiled variant):")
open(os.path.join(V, "harness", "c19_layout_static.cpp"), "w").write(tu)
print(len(rows), "rows")
