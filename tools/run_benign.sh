#!/bin/bash
# usage: tools/run_benign.sh [pattern]   : runs, for every property-PRESERVING change kept under benign/ (Bxx_Cyy_k.diff, see benign/README.md), the quick
# checks of the property it was written against and of its neighbours, on a scratch copy with the change applied. Every line must read rc=0:
# an rc=1 here is a false alarm of the check (or a change that is not as harmless as its author thought - read its .md first).
cd /verif
declare -A REL=( [C01]="C01 C08 C19 C18" [C08]="C08 C01 C19" [C02]="C02 C03 C04 C18 C09" [C03]="C03 C02 C20" [C04]="C04 C01 C07 C18" [C07]="C07 C10 C06 C18"
  [C05]="C05 C06 C18 C19" [C06]="C06 C07 C05 C10" [C09]="C09 C15 C17" [C10]="C10 C16 C07 C09" [C11]="C11 C12 C14" [C12]="C12 C11 C14 C13" [C13]="C13 C14 C12"
  [C14]="C14 C11 C13" [C15]="C15 C17 C09" [C17]="C17 C15 C09 C04" [C16]="C16 C10 C15" [C18]="C18 C05 C19 C04" [C19]="C19 C08 C03 C18" [C20]="C20 C03 C06" )
for d in benign/${1:-*}.diff; do
  n=$(basename $d .diff); p=$(echo $n | grep -oE "C[0-9][0-9]" | head -1)
  echo "$n: $(tools/try_patch.sh $d ${REL[$p]} | grep -oE '^C[0-9][0-9] rc=[0-9]+' | tr '\n' ' ')"
done
