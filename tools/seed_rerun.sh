#!/bin/bash
# usage: tools/seed_rerun.sh <Cxx_seeddemoN> <checks...>  : re-runs checks against an already staged and vetted patch; appends to /tmp/stage/<name>.result2
n=$1; shift
cd /verif && tools/try_patch.sh /tmp/stage/$n/patch.diff "$@" >> /tmp/stage/$n.result2 2>&1
tail -$# /tmp/stage/$n.result2 | awk '{print $1":"$2}' | tr '\n' ' '; echo " <- $n"
