#!/usr/bin/env python3
"""setup_cmd: pre-builds every configuration of /repo's current tree and the harness executables (offline)."""
import os
import sys
import time

sys.path.insert(0, os.path.dirname(os.path.dirname(os.path.abspath(__file__))))
from vlib import build, ref  # noqa: E402

t = time.time()
assert ref.selftest()
print("reference model self-test ok (%.1fs)" % (time.time() - t))
for cfg in ("asm", "c64", "c32"):
    try:
        build.build(cfg)
        print("built", cfg, "%.1fs" % (time.time() - t))
    except build.BuildError as e:
        print("build of %s failed (%s): checks will report it" % (cfg, e.kind))
