#!/bin/bash
# usage: tools/seed_batch.sh "<Cxx/seeddemoN> ..." "<checks>"   -> /tmp/stage/<Cxx_seeddemoN>.result
# stages each sub-agent demonstration directory, vets it (tools/vet_seed.sh) and runs the given checks on the patched scratch copy
# env SEEDROOT (default /tmp/seed) and TAG (default empty; e.g. r2 -> staged as Cxx_r2_seeddemoN)
cd /verif
for d in $1; do
  n=$(echo $d | tr / _)
  [ -n "${TAG:-}" ] && n=$(echo $n | sed -E "s/^(C[0-9]+)_/\1_${TAG}_/")
  rm -rf /tmp/stage/$n; mkdir -p /tmp/stage; cp -r ${SEEDROOT:-/tmp/seed}/$d /tmp/stage/$n
  find /tmp/stage/$n -type f \( -name '*.o' -o -name '*.a' -o -perm -u+x -size +100k \) -delete 2>/dev/null
  rm -rf /tmp/stage/$n/build /tmp/stage/$n/logs/*.bin
  { echo "=== $n"; tools/vet_seed.sh /tmp/stage/$n; tools/try_patch.sh /tmp/stage/$n/patch.diff $2; } > /tmp/stage/$n.result 2>&1
  echo "$n: $(grep VETTED /tmp/stage/$n.result) | $(grep -E '^C[0-9]+ rc=' /tmp/stage/$n.result | awk '{print $1":"$2}' | tr '\n' ' ')"
done
