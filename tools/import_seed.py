#!/usr/bin/env python3
"""usage: tools/import_seed.py <staged dir (/tmp/stage/Cxx_seeddemoN)> <id> <property> "<what it needs in order to manifest>"

Copies a vetted sub-agent change into /verif/seeded/<id>/ (patch.diff, the demonstration sources, NOTES.md) and writes meta.json from
the staged result file (/tmp/stage/<name>.result: output of tools/vet_seed.sh and tools/try_patch.sh)."""
import json
import os
import re
import shutil
import sys

stage, sid, prop, needs = sys.argv[1].rstrip("/"), sys.argv[2], sys.argv[3], sys.argv[4]
VERIF = os.path.dirname(os.path.dirname(os.path.abspath(__file__)))
dst = os.path.join(VERIF, "seeded", sid)
os.makedirs(dst, exist_ok=True)
KEEP = (".cpp", ".c", ".h", ".hpp", ".sh", ".md", ".diff", ".py", ".s", ".txt")
for f in sorted(os.listdir(stage)):
    p = os.path.join(stage, f)
    if os.path.isfile(p) and f.endswith(KEEP) and os.path.getsize(p) < 200_000 and not f.endswith(".log"):
        shutil.copy(p, os.path.join(dst, f))
res = open(stage + ".result").read() if os.path.exists(stage + ".result") else ""
# later runs of single checks against the same patch (after the checks were strengthened) override the earlier lines
if os.path.exists(stage + ".result2"):
    res += "\n" + open(stage + ".result2").read()
facts = {}
for key, pat in (("demo_without_change_rc", r"demo-without-change rc=(\d+)"), ("demo_with_change_rc", r"demo-with-change rc=(\d+)"),
                 ("suite_compiles_rc", r"suite-compiles rc=(\d+)"), ("pinned_suite", r"pinned-suite (rc=\d+ PASS=\d+ FAIL=\d+)"),
                 ("wkdibe_tests", r"wkdibe-tests\(informational\) (rc=\d+ PASS=\d+ FAIL=\d+)"), ("vetted", r"VETTED=(\d)")):
    m = re.search(pat, res)
    if m:
        facts[key] = m.group(1)
checks = {}
first_run = {}
for m in re.finditer(r"^(C\d\d) rc=(\d+) ", open(stage + ".result").read() if os.path.exists(stage + ".result") else "", re.M):
    first_run.setdefault(m.group(1), int(m.group(2)))
for m in re.finditer(r"^(C\d\d) rc=(\d+) (\d+) violation line\(s\): ?(.*)$", res, re.M):
    first = re.sub(r"replay=\S+", "replay=<scratch>", m.group(4))[:240]
    checks[m.group(1)] = {"rc": int(m.group(2)), "violation_lines": int(m.group(3)), "first": first}
extra = {}
if len(sys.argv) > 5:
    extra = json.loads(sys.argv[5])
for k, v in extra.items():
    checks[k] = v
meta = {
    "id": sid, "breaks_property": prop,
    "origin": "written by an independent sub-agent that was given only the text of the property and a scratch worktree of /repo (nothing from /verif)",
    "needs_to_manifest": needs,
    "confirmed_in_scratch_worktree": {
        "what_was_run": "tools/vet_seed.sh <this dir>: fresh worktree of /repo HEAD; bash run.sh (pristine) ; git apply patch.diff ; bash run.sh ; "
                        "cd tests && make && ./test ; ./test wkdibe",
        **facts},
    "quick_checks_run_against_it": "tools/try_patch.sh patch.diff <checks> (scratch copy of /repo, never /repo itself)",
    "results": checks,
    "caught_by": sorted(k for k, v in checks.items() if v.get("rc") == 1),
    "missed_before_strengthening": sorted(k for k, v in checks.items() if v.get("rc") == 1 and first_run.get(k) == 0),
}
with open(os.path.join(dst, "meta.json"), "w") as fh:
    json.dump(meta, fh, indent=1)
print(sid, "->", dst, "caught by", meta["caught_by"], facts.get("vetted"))
