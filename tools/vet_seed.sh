#!/bin/bash
# usage: tools/vet_seed.sh <dir with patch.diff, run.sh, demo.*>   (the demonstration directory written by a sub-agent)
# Confirms, in a fresh scratch worktree of /repo's HEAD (never in /repo): the patch applies and compiles, the pinned suite
# (tests/test, 33 names) passes with it, `tests/test wkdibe` result (informational), the demonstration fails with the patch and
# passes without it.  Prints one line per fact; exit 0 iff all four required facts hold.  Removes the worktree.
set -u
demo=$(readlink -f "$1")
name=$(basename "$demo" | sed -E 's/^C[0-9]+_(r[0-9]+_)?//')     # staged as Cxx_seeddemoN, lives in the worktree as seeddemoN (run.sh may use that path)
work=$(mktemp -d /tmp/vet.XXXXXX)
trap 'git -C /repo worktree remove --force "$work/wt" >/dev/null 2>&1; rm -rf "$work"' EXIT
git -C /repo worktree add -q --detach "$work/wt" HEAD || exit 3
cd "$work/wt"
cp -r "$demo" "$work/wt/$name"
ok=1
# --- without the change
bash "$name/run.sh" > "$work/demo_clean.log" 2>&1; rc_clean=$?
echo "demo-without-change rc=$rc_clean (want 0)"; [ $rc_clean -eq 0 ] || ok=0
# --- with the change
if ! git apply "$name/patch.diff" 2>"$work/apply.log"; then
  patch -p1 -s < "$name/patch.diff" > "$work/apply.log" 2>&1 || { echo "patch-applies NO: $(head -3 $work/apply.log)"; exit 1; }
fi
echo "patch-applies yes: $(git diff --stat -- include src | tail -1)"
if git diff --name-only | grep -qv -E '^(include|src)/'; then echo "patch-touches-outside-include-src: $(git diff --name-only | tr '\n' ' ')"; fi
bash "$name/run.sh" > "$work/demo_mut.log" 2>&1; rc_mut=$?
echo "demo-with-change rc=$rc_mut (want non-zero): $(tail -2 $work/demo_mut.log | tr '\n' ' ' | cut -c1-200)"; [ $rc_mut -ne 0 ] || ok=0
(cd tests && make -j16 > "$work/make.log" 2>&1); rc=$?
echo "suite-compiles rc=$rc"; [ $rc -eq 0 ] || { ok=0; tail -5 "$work/make.log"; }
if [ $rc -eq 0 ]; then
  (cd tests && timeout 900 ./test > "$work/suite.log" 2>&1); rc=$?
  npass=$(grep -c "PASS" "$work/suite.log"); nfail=$(grep -c "FAIL" "$work/suite.log")
  echo "pinned-suite rc=$rc PASS=$npass FAIL=$nfail (want 33+ / 0)"; { [ $rc -eq 0 ] && [ $nfail -eq 0 ] && [ $npass -ge 33 ]; } || ok=0
  (cd tests && timeout 900 ./test wkdibe > "$work/wk.log" 2>&1); rc=$?
  echo "wkdibe-tests(informational) rc=$rc PASS=$(grep -c PASS $work/wk.log) FAIL=$(grep -c FAIL $work/wk.log)"
fi
echo "VETTED=$ok"
[ $ok -eq 1 ]
