#!/bin/bash
# usage: tools/regress_seeds.sh [pattern]   : re-runs, for every change kept under seeded/ (matching the pattern), the quick check of the property
# it was aimed at if that check caught it (else the first check that did), against a scratch copy with the change applied;
# prints one line per change: OK (still reported) or LOST (no longer reported).
cd /verif
for d in seeded/${1:-*}/; do
  id=$(basename $d)
  chk=$(python3 - "$d/meta.json" <<'PY'
import json,sys
m=json.load(open(sys.argv[1]))
c=m["caught_by"]
print(m["breaks_property"] if m["breaks_property"] in c else (c[0] if c else ""))
PY
)
  [ -z "$chk" ] && { echo "SKIP $id (no check reports it)"; continue; }
  out=$(tools/try_patch.sh $d/patch.diff $chk)
  if echo "$out" | grep -q "^$chk rc=1"; then echo "OK   $id $chk"; else echo "LOST $id $chk :: $(echo "$out" | head -3 | cut -c1-200)"; fi
done
