#!/bin/bash
# usage: tools/try_patch.sh <patch.diff> <Cxx> [Cyy ...]   (env TIER=quick|thorough)
# Applies a patch to a scratch copy of /repo (never to /repo itself), runs the named checks against the copy with
# evidence/replays redirected to a scratch directory, prints one line per check, and removes the copy.
set -u
patch=$(readlink -f "$1"); shift
work=$(mktemp -d /tmp/vmut.XXXXXX)
trap 'rm -rf "$work"' EXIT
mkdir -p "$work/repo" "$work/out"
rsync -a --exclude bin --exclude '*.a' --exclude tests/bin --exclude tests/test --exclude .git /repo/ "$work/repo/"
(cd "$work/repo" && patch -p1 -s < "$patch") || { echo "PATCH-FAILED $patch"; exit 3; }
cd /verif
for c in "$@"; do
  VERIF_REPO="$work/repo" VERIF_OUT="$work/out" ./vcheck "$c" --tier "${TIER:-quick}" > "$work/out/$c.log" 2>&1
  rc=$?
  echo "$c rc=$rc $(grep -c '^VIOLATION' "$work/out/$c.log") violation line(s): $(grep -m1 '^VIOLATION' "$work/out/$c.log" | cut -c1-260)"
  [ $rc -ne 0 ] && [ $rc -ne 1 ] && tail -5 "$work/out/$c.log"
done
