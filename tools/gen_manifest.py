#!/usr/bin/env python3
"""Regenerates MANIFEST.json from the table below (claimed checks = modules present in checks/)."""
import json
import os

V = os.path.dirname(os.path.dirname(os.path.abspath(__file__)))

CHECKS = {
    "C01": dict(engine="A", technique="bounded-exhaustive enumeration of exponent pairs x representatives x entry points against a textbook optimal-ate pairing",
                text="Every enumerated (a,b) in the scalar alphabet squared, through every pairing entry point and every non-normalised representative, is compared byte-for-byte with the Python textbook pairing e(G1,G2)^(ab); all failures replayable.",
                note="Python reference model (vlib/ref.py) is the ground truth; inputs outside the alphabet are not covered", ref="4/C01"),
    "C02": dict(engine="A+S", technique="bounded-exhaustive operand alphabets vs Python ints on 4 back ends + exhaustive run of the same templates with 8-bit words",
                text="All operand pairs of the boundary alphabets - placed both in the value domain and in the internal (Montgomery) residue domain, plus half-modulus limb products for the doubling operations - x all operations x 5 builds (x86-64 assembly BMI2/ADX and baseline, g++ -O2 -DNDEBUG portable 64-bit, clang -Os portable 32-bit, clang -O0) are compared with Python integer arithmetic; exponentiation also with a 768-bit exponent type; inversion inputs chosen by their output (stored result and its predecessors under the halving step over the limb-product alphabets); the identical template source instantiated with 8-bit words is run on ALL inputs (all pairs mod 4 small primes, all reduction inputs).",
                note="small-scope hypothesis for engine S; Python ints are the ground truth; Fq::compare pinned to internal-residue order", ref="4/C02"),
    "C03": dict(engine="A+I", technique="exhaustive differential sweep of limb-product operand spaces across 4 native back ends + interpreted execution of the ARM assembly sources",
                text="Full Cartesian limb-alphabet products of all 384/256-bit operands through every multi-precision/modular primitive on x86-64 BMI2, x86-64 baseline, portable 64- and 32-bit back ends must give identical digests (bisected to a case on mismatch; one-operand routines also over half-limb / sign-bit limb products); the AArch64/ARMv6-M sources are executed instruction by instruction (any access below the stack pointer is an error: no red zone) on boundary alphabets against integer arithmetic, entered through the binding (callee, argument registers, stack slot, return value) extracted by symbolic tracing of the cross-compiled C++ template specialisations; the run-time selection of the BMI2/ADX routines is checked under every (BMI2, ADX) answer of CPUID (CPUID faulting): a routine that needs both is selected only when both are reported.",
                note="ARM results rest on the interpreters in armsim/ (trusted base); 64-bit digest collisions ignored", ref="4/C03"),
    "C04": dict(engine="A", technique="bounded-exhaustive element alphabets x every member x all Frobenius powers x all sparse shapes vs schoolbook quotient-ring arithmetic",
                text="Every public member of Fq2/Fq6/Fq12 on the full element alphabets (every zero/non-zero support pattern, unit vectors, (+-1, generic) two-sparse elements at every position pair, embedded subfields; all ordered pairs for binary operations, every sparse operand shape, Frobenius powers 0..25 and two large ones, cyclotomic map/squaring/exponentiation) is compared with schoolbook arithmetic in the defining quotient rings on 4 builds (assembly, g++ -O2 -DNDEBUG, clang -Os 32-bit, clang -O0).",
                note="Python quotient-ring model is the ground truth; inverse/sqrt checked by their defining relations", ref="4/C04"),
    "C05": dict(engine="A", technique="exhaustive enumeration of all ordered point pairs x all Jacobian representative pairs x operations vs the affine chord-and-tangent law",
                text="All ordered pairs of the point alphabet (identity, subgroup points, points outside the subgroup incl. the order-3 point, negatives, doubles) in all representative pairs go through add/add_mixed/double/negate/equal/conversions (C API and C++ members, 4 builds incl. g++ and -O0); each result is normalised by definition in Python and compared with the group law; every exceptional-case class must be hit; crafted G1 points whose doubling / mixed-addition intermediates (stored residues of X^2, Y^4, (x2-X1)^2) sit at k q / f.",
                note="Python affine group law is the ground truth", ref="4/C05"),
    "C06": dict(engine="A", technique="bounded-exhaustive scalar alphabets (all recoding/decomposition boundaries) x bases x every multiplication routine vs Python double-and-add; recoding/decomposition checked as functions",
                text="Every scalar of S(bits) (incl. 2^bits-j, r-related values, GLV thresholds incl. those where the rounded / floored quotient takes boundary word patterns, base-|x| digit boundaries, scalars as stored words from {0, |x|-1, |x|, 2^63, 2^64-1}) x 6 bases x every routine/window/width on 3 builds (clang+assembly, g++ -O2 -DNDEBUG, clang -Os 32-bit) equals Python double-and-add; the w-NAF template runs on ALL 16/24-bit scalars over a toy group; w-NAF digits recombine exactly, stay inside table and buffer; base-|x| digits recombine mod r.",
                note="Python double-and-add is the ground truth; eigenvalue-based routines only required on subgroup points", ref="4/C06"),
    "C07": dict(engine="A+E", technique="bounded-exhaustive exponent alphabet x bases x routines vs Python pow; enumeration of all random-source answer sequences with <= 2 deviations",
                text="All exponents of S(256) x GT bases x 6 exponentiation routes on 3 back ends equal Python pow; group operations on all base pairs; every answer sequence of the random source with at most 2 deviations in the first 12 digit requests (plus tuples hitting y=r-1,r,r+1,0,x^4-1) yields exactly the exact-rejection-sampling y and base^y.",
                note="uniformity decided functionally (exact rejection sampling), not statistically", ref="4/C07"),
    "C08": dict(engine="B", technique="exhaustive enumeration of all (affine list, prepared list) shapes up to a length bound, each evaluated twice on the same pair arrays",
                text="Every list of total length 0..3 (4 thorough) over {P1,P2,O}x{Q1,Q2,O} in every split between plain and prepared pairs is evaluated twice in a row on the same arrays (cursor fields pre-filled with garbage) through both product entry points and must equal the model's product of single pairings; the pair count also takes EVERY value 5..130 (pure lists) and the boundary values with identity pairs at the start / early / middle / end and as a run.",
                note="single pairings decided by C01; portable back ends run every 4th list", ref="4/C08"),
    "C09": dict(engine="A", technique="bounded-exhaustive byte-string mutations of every valid encoding (all flag settings x coordinate variants, every identity byte position, full first-byte sweep) against a Python specification of validating decode",
                text="For every alphabet point and encoding form, all 8 flag settings x coordinate variants (+q per component, stray top bits, no-y x, non-subgroup point, -y, off-curve y), identity strings with one non-zero byte at every position and all 256 first bytes over 3 tails are decoded; accept iff the Python specification accepts, with the same point; unchecked decode agrees on valid input; decoding into re-used destination objects; order-r points of isomorphic curves (uncompressed (u^2 x, u^3 y); compressed G1: crafted x with x^3+4 a non-residue); 4 builds incl. g++ -DNDEBUG and -O0.",
                note="Python decode_model is the specification; 'greater' flag pinned to the library's internal-residue order", ref="4/C09"),
    "C10": dict(engine="A+E", technique="bounded-exhaustive hash strings vs exact specification; enumeration of all random-source answer sequences (typed by request length) with <= 2 deviations in the first 10 requests",
                text="Hash strings incl. long try-and-increment miss runs, wrap-around, unreduced values and all top-bit patterns are compared with the exact specification on 3 back ends; every sampling routine is run under every answer sequence of the typed menus with at most 2 deviations and must satisfy the post-conditions (range, non-identity, on curve, subgroup, consistency, determinism, termination); scripted digit streams reach y = r-1, r, r+1, 0 for the base-|x| samplers; hashed x chosen by the stored form of x^3+4 (word patterns).",
                note="post-conditions only (robust to draw order); subgroup membership via the library's check plus Python on a subset", ref="4/C10"),
    "C11": dict(engine="B", technique="explicit-state search: pure-model BFS over abstract key states + replay of witness histories on the real code + every enabled transition applied and the key invariant evaluated in every successor",
                text="All abstract key states (kind x {free,fixed(v),hidden}^l) reachable by keygen/qualify/non-delegable/resample/adjust with every permitted attribute list are enumerated by a model BFS; each is rebuilt on the real library from its witness history and every enabled transition is executed; each successor must list exactly the model's free slots (no write past the binding's allocation), satisfy the pairing equations for a0/a1/b_i/bsig, decrypt for its pattern (also the master key), propagate flags and re-randomise. Attribute entries include omitFromKeys with a non-zero id and unreduced ids >= 2r; parameters and master key are re-expressed in another Jacobian representation; adjustments go towards one target of every merge kind; the thorough tier also explores from EVERY history of length <= 2 without state dedup; slot counts 9, 20 (with and without signatures), 33, 64, 65 on witness histories (every l up to 40 and to 257 at boundaries in the thorough tier); adjustments also with both list headers over one attribute array; part of the state space also on the g++ -O2 -DNDEBUG and clang -Os 32-bit builds.",
                note="l=2 quick / l=3 thorough, two generic values + special values; dedup by abstract state guarded by multiple witness histories; the pairing inside the invariant is the library's (C01)", ref="4/C11"),
    "C12": dict(engine="B", technique="exhaustive (key state x ciphertext attribute list) matrix on the C11 state graph; exhaustive illegal hidden-slot fills through 3 APIs; single-component tampering",
                text="For every reachable key state and every ciphertext list of the alphabet, decryption returns the message iff the list equals the key's fixed pattern (mod r); every illegal attempt to give a hidden slot a value through qualifykey / nondelegable_qualifykey / adjust_nondelegable yields a key that opens no ciphertext with that slot set; altering a, b or c alone changes the result. Ciphertext lists include unreduced ids and entries with omitFromKeys set (which encryption must ignore); hidden slots are also produced by an adjustment step before the fill attempts; large slot counts and the g++ / -Os builds on a subset.",
                note="inequalities are exact for the enumerated deterministic instances (coincidence probability ~2^-255)", ref="4/C12"),
    "C13": dict(engine="B", technique="exhaustive (key state x extension list x message) enumeration with per-case negative space (other messages, every other list, component perturbations, incompatible lists)",
                text="Every reachable key state signs every extension list of its pattern over free slots for every message of the alphabet via sign / sign_precomputed / attrs=NULL; all must verify (both verify forms); verification must fail for messages different mod r, every other list, hidden/differently-fixed slots, a0+G1, a1+G2; m and m+r verify alike; the signed list verifies under every re-flagging (omitFromKeys) and with unreduced ids (id+r, id+2r), flagged entries with a non-zero id count as list entries; l=3 also in the quick tier; long lists (l=65) and the g++ / -Os builds on a subset.",
                note="messages are scalars mod r", ref="4/C13"),
    "C14": dict(engine="B", technique="exhaustive ordered pairs and triples of attribute lists; every (parent state, from, to) with both lists permitted; differential against recomputation from scratch",
                text="adjust_precomputed equals precompute(target) for all ordered list pairs (l=3, incl. hidden entries and ids >= r) and all chains F->M->T; adjust_nondelegable equals direct non-delegable qualification component for component for every reachable parent state and every permitted (from,to), and along chains carried out in place on ONE key object whose spare slot entries hold canary bytes, zeros or a foreign key's valid-looking slots; precomputed encryption decrypts on every state; l=65 lists and the g++ / -Os builds on a subset; every prefix-related (from, to) pair also with both list headers over ONE attribute array (other length / other omit-all flag).",
                note="group elements compared with the library's projective equality (C05)", ref="4/C14"),
    "C15": dict(engine="B+A", technique="every reachable object x both encodings: exact length accounting with canaries, every off-by-k length, round trip, and every (element position x invalid encoding) corruption",
                text="Params for l=0..3 with/without signatures, master key, secret keys of every reachable abstract state, ciphertexts, signatures and all LQ-IBE objects are marshalled into exact-size canaried buffers (reported == computed == written), unmarshalled through the Go protocol (checked and unchecked) and re-marshalled byte-identically; length discovery returns -1 for every length off by 1..slot-1; each embedded element position is replaced by each invalid encoding and checked unmarshal must refuse; explicit-state exploration of unmarshal HISTORIES (length <= 3 over valid A, valid B, B with each element invalid, B truncated) into one re-used destination object: the object must equal a fresh object that received the last accepted buffer, in both encodings; secret keys with many free slots (20 with / without signatures, 700 and 1300: slot area beyond 64 KiB; every l up to 70 in the thorough tier); correlated corruptions: every adjacent pair of same-group elements replaced by invalid points whose out-of-subgroup components cancel; 4 builds.",
                note="wire layout taken from the marshal sources; GT members are unvalidated raw bytes", ref="4/C15"),
    "C16": dict(engine="A+E", technique="bounded-exhaustive product identity hashes x master scalars x lengths, plus every random-stream answer sequence with <= 1 (2) deviations, with a recording hash callback",
                text="For every enumerated (identity hash, master scalar incl. >= r and via unmarshal, key length incl. 0, random stream) the bytes decrypt feeds the hash equal those of encrypt and equal compress(Q)||compress(rP)||e(sQ,rP) recomputed independently (C pairing API; Python model with chosen discrete logs on a subset); keygen = [s]Q; pointer/length pass-through; negatives differ; identity histories: every ordered pair of hashes differing in one byte, computed back to back, gives the model's point of its own argument.",
                note="hash function is the caller's; pairing decided by C01", ref="4/C16"),
    "C17": dict(engine="E", level="fault_enumeration", technique="exhaustive enumeration of buffer lengths x first bytes x fills x encodings x modes through the binding's allocation protocol under ASan+UBSan on 3 builds; other checks' call sequences replayed under the same sanitizers",
                text="Every length 1..Lmax x first byte x fill (zeros, ones, valid truncated/extended, each element corrupted) x encoding x mode for the two length-driven parsers, the byte alphabet for all fixed-size objects, every buffer start offset 0..15 for every object kind, and EVERY slot count l = 3..40, 63..65 (to 130, 255..257, 700 thorough) with keys fresh from keygen, run with exact-size heap blocks under AddressSanitizer+UBSan on asm/64-bit/32-bit clang builds and a g++ build (GCC's sanitizer run time); a valid object that comes out of unmarshal is used in further calls (resample, qualify, decrypt, sign, encrypt); accepted objects are re-marshalled; the quick call sequences of other properties run once under the same monitor, and those of C04/C05/C07/C08 once more with every argument and result object flush against an inaccessible page (at its end, then at its start), which also monitors the assembly routines.",
                note="ASan/UBSan and guard pages are the monitor (assembly routines are opaque to the sanitizers, not to guard pages); Go protocol re-implemented in C++", ref="4/C17"),
    "C18": dict(engine="A", technique="table-driven: every public operation x all set partitions of {output, non-restrict same-type inputs} x small operand alphabet, differential against the all-distinct call",
                text="For each of ~235 operations (incl. hash-to-curve with the hash stored in the result object) (BigInt, FpBase, Fq, Fr, Fq2/6/12, cyclotomic, curve points, scalar multiplications, final exponentiation, C interface) every aliasing pattern permitted by the signature is executed on operands that trigger the shortcuts and must give the bytes of the all-distinct call, on 4 builds (clang -Ofast + assembly, g++ -O2 -DNDEBUG, clang -Os 32-bit, clang -O0).",
                note="__restrict operands exempt; scheme layer outside the property's layers", ref="4/C18"),
    "C19": dict(engine="A", technique="exhaustive finite table (size/align/offset of every struct member, every exported constant) under 3 word-size configurations + differential call of every exported C function against its C++ operation",
                text="A generated TU measures sizeof/alignof/offsetof of every member of every C struct and its C++ counterpart and all exported constants under asm, portable-64 (g++), portable-32 (-Os) and -O0 builds, and - by cross-compilation, rows read from the object file - under the ILP32 data models armv6-m, armv7-a, i386 and under aarch64; the exported C functions are listed from the symbol table and each is compared byte-for-byte with the C++ operation on argument alphabets (same random stream); pairing_sum against the C++ product for every pair count 0..44; member rows resolved through SFINAE probes (a renamed private member is 'not comparable', not a build failure).",
                note="C++ side decided by C01-C16", ref="4/C19"),
    "C20": dict(engine="P", technique="preemption-bounded exhaustive schedule exploration of the real code under a serialising scheduler (function-entry hooks), plus write-protection monitor over the library image, symbol audit of every object x configuration and a free-running ThreadSanitizer pass",
                text="Two real threads (three in the thorough tier) each run one operation of a 47-entry menu (field, curve, pairing, sampling, WKD-IBE, LQ-IBE with two identities) on shared const inputs; every schedule with at most 2 preemptions (3 for small self pairs in the thorough tier) at compiler-inserted function-entry points (depth calibrated per operation) and at the caller's hash callback is executed, each output must equal the sequential result and the shared inputs must be byte-identical afterwards; the library image's writable segments are made read-only while the other properties' call alphabets run, so any store to global state faults (classified by fault address); every object file of 5 build configurations is audited for external references; the same bodies run free on 16 threads under ThreadSanitizer.",
                note="sequentially consistent scheduler; no scheduling points inside leaf/assembly routines (races there are the job of TSan and the write monitor)", ref="4/C20"),
}

LEVEL = "model_checking"


def main():
    props = [json.loads(l) for l in open(os.path.join(V, "properties.jsonl"))]
    checks = []
    na = []
    for p in props:
        pid = p["id"]
        mod = os.path.join(V, "checks", pid.lower() + ".py")
        if pid in CHECKS and os.path.exists(mod):
            c = CHECKS[pid]
            checks.append({
                "property_id": pid,
                "quick_cmd": "./vcheck %s --tier quick" % pid,
                "thorough_cmd": "./vcheck %s --tier thorough" % pid,
                "evidence_file": "/verif/evidence/%s.json" % pid,
                "replay_cmd_template": "./vcheck %s --replay {path}" % pid,
                "engine": c["engine"],
                "level_claimed": {"category": c.get("level", LEVEL), "text": c["text"], "design_ref": "DESIGN.md section " + c["ref"]},
                "level_note": c["note"],
                "technique": c["technique"],
            })
        else:
            na.append({"property_id": pid, "reason": "check not built yet (work in progress; see DESIGN.md section 4)"})
    m = {
        "version": 1,
        "setup_cmd": "python3 tools/setup.py",
        "hooks": {"guard": "JEDI_PAIRING_VERIF", "enable": "no source hooks are used: checks build /repo's working tree (include/, src/) into /verif/build/<tree-hash>/<config>/ with compiler flags only",
                  "baseline_off_cmd": "make -C /repo/tests clean >/dev/null && make -C /repo/tests -j16 >/dev/null && cd /repo/tests && ./test",
                  "source_commits": [], "add_only": True},
        "engines": [
            {"name": "A", "path": "vlib/, checks/", "serves_properties": ["C01", "C02", "C03", "C04", "C05", "C06", "C07", "C09", "C10", "C16", "C18", "C19"], "kind_free_text": "bounded-exhaustive alphabets x operations x back ends against a Python reference model"},
            {"name": "S", "path": "harness/w8.cpp", "serves_properties": ["C02"], "kind_free_text": "core templates instantiated with 8-bit words, all inputs"},
            {"name": "I", "path": "armsim/", "serves_properties": ["C03"], "kind_free_text": "instruction-level interpreters for the AArch64 / ARMv6-M assembly sources"},
            {"name": "B", "path": "checks/", "serves_properties": ["C08", "C11", "C12", "C13", "C14", "C15"], "kind_free_text": "explicit-state search over API histories on the real code"},
            {"name": "E", "path": "checks/", "serves_properties": ["C07", "C10", "C16", "C17"], "kind_free_text": "environment-answer (callback / buffer) enumeration with a deviation bound"},
            {"name": "P", "path": "sched/", "serves_properties": ["C20"], "kind_free_text": "preemption-bounded schedule exploration under a serialising scheduler"},
        ],
        "checks": checks,
        "not_applicable": na,
        "notes": "All checks are ./vcheck <id>; known_findings.json lists known/fixed genuine defects; tools/try_patch.sh runs checks against a patched scratch copy.",
    }
    with open(os.path.join(V, "MANIFEST.json"), "w") as fh:
        json.dump(m, fh, indent=1)
    print("claimed:", [c["property_id"] for c in checks])


if __name__ == "__main__":
    main()
