/*
 * C17: untrusted-bytes enumeration under ASan + UBSan.  Re-implements the Go binding's unmarshal protocol
 * (set_length -> allocate exactly the reported number of slots -> unmarshal) with the input in an exact-length heap block,
 * so that any read outside the buffer or write outside the destination object / slot array hits a red zone.
 *
 * usage: c17_fuzz <kind> <compressed 0|1> <checked 0|1> <fill> <start> [<end>]
 *   kind: params | secretkey  -> enumerate every length start..Lmax x first byte {0,1,0xFF}
 *         fixed               -> fixed-size objects (ciphertext, signature, master key, LQ-IBE objects, G1/G2/GT) x byte alphabet; start = case index
 *   fill: zeros | ones | valid | corrupt<k>   (valid object truncated/extended; corrupt<k>: valid object with element k overwritten)
 * Prints "CASE ..." for the case being executed when a sanitizer reports, "STAT ..." counters at the end.
 */
#include <stdint.h>
#include <stdio.h>
#include <stdlib.h>
#include <string.h>
#include <signal.h>
#include <unistd.h>

extern "C" {
#include "bls12_381/bls12_381.h"
#include "wkdibe/wkdibe.h"
#include "lqibe/lqibe.h"
}

static char g_case[512] = "startup";
static void report_case(const char* why) {
    char buf[700];
    int n = snprintf(buf, sizeof(buf), "\nCASE %s | %s\n", g_case, why);
    if (write(1, buf, n) < 0) {}
}
extern "C" void __asan_on_error(void) { report_case("asan"); }
extern "C" void __ubsan_on_report(void) { report_case("ubsan"); }
static void on_signal(int sig) { report_case(sig == SIGSEGV ? "SIGSEGV" : (sig == SIGBUS ? "SIGBUS" : "signal")); _exit(99); }

static uint64_t rng_state = 0x9E3779B97F4A7C15ull;
static void det_random(void* buf, size_t n) {
    uint8_t* p = (uint8_t*) buf;
    for (size_t i = 0; i < n; i++) {
        rng_state ^= rng_state << 13; rng_state ^= rng_state >> 7; rng_state ^= rng_state << 17;
        p[i] = (uint8_t) (rng_state >> 32);
    }
}
static void hash_fill(void* out, size_t outlen, const void* in, size_t inlen) {
    uint8_t acc = 0;
    for (size_t i = 0; i < inlen; i++) acc ^= ((const uint8_t*) in)[i];
    memset(out, acc, outlen);
}

typedef embedded_pairing_wkdibe_params_t params_t;
typedef embedded_pairing_wkdibe_secretkey_t secretkey_t;
static const int L = 4;

static unsigned long long n_calls = 0, n_accepted = 0, n_lengths_ok = 0, n_remarshal = 0, n_used = 0;

/* When the buffer being parsed is, byte for byte, what the library itself marshalled from a valid object, the object that unmarshal
 * returns is a valid argument for every other call ("every other API call on valid arguments ..."): it is then USED (g_use set by the
 * driver for exactly those buffers) - an unmarshalled key is resampled, qualified and used to decrypt, unmarshalled parameters encrypt. */
struct World;
static World* g_world = NULL;
static bool g_use = false;
static void use_params(const params_t* p);
static void use_secretkey(const secretkey_t* k);

/* one parse of an untrusted buffer through the Go protocol; the buffer is copied into an exact-length heap block */
static void parse_params(const uint8_t* data, size_t len, bool comp, bool checked) {
    uint8_t* exact = (uint8_t*) malloc(len);
    memcpy(exact, data, len);
    params_t p;
    memset(&p, 0, sizeof(p));
    p.h = NULL;
    int n = embedded_pairing_wkdibe_params_set_length(&p, exact, len, comp);
    n_calls++;
    if (n >= 0) {
        n_lengths_ok++;
        p.h = n ? (embedded_pairing_wkdibe_g1_t*) malloc((size_t) n * sizeof(embedded_pairing_wkdibe_g1_t)) : NULL;
        bool ok = embedded_pairing_wkdibe_params_unmarshal(&p, exact, comp, checked);
        if (ok) {
            n_accepted++;
            size_t ml = embedded_pairing_wkdibe_params_get_marshalled_length(&p, comp);
            uint8_t* out = (uint8_t*) malloc(ml);
            embedded_pairing_wkdibe_params_marshal(out, &p, comp);
            n_remarshal++;
            free(out);
            if (g_use) use_params(&p);
        }
        free(p.h);
    }
    free(exact);
}

static void parse_secretkey(const uint8_t* data, size_t len, bool comp, bool checked) {
    uint8_t* exact = (uint8_t*) malloc(len);
    memcpy(exact, data, len);
    secretkey_t k;
    memset(&k, 0, sizeof(k));
    k.b = NULL;
    int n = embedded_pairing_wkdibe_secretkey_set_length(&k, exact, len, comp);
    n_calls++;
    if (n >= 0) {
        n_lengths_ok++;
        k.b = n ? (embedded_pairing_wkdibe_freeslot_t*) malloc((size_t) n * sizeof(embedded_pairing_wkdibe_freeslot_t)) : NULL;
        bool ok = embedded_pairing_wkdibe_secretkey_unmarshal(&k, exact, comp, checked);
        if (ok) {
            n_accepted++;
            size_t ml = embedded_pairing_wkdibe_secretkey_get_marshalled_length(&k, comp);
            uint8_t* out = (uint8_t*) malloc(ml);
            embedded_pairing_wkdibe_secretkey_marshal(out, &k, comp);
            n_remarshal++;
            free(out);
            if (g_use) use_secretkey(&k);
        }
        free(k.b);
    }
    free(exact);
}

struct World {
    params_t params;
    embedded_pairing_wkdibe_masterkey_t msk;
    secretkey_t key;
    embedded_pairing_wkdibe_ciphertext_t ct;
    embedded_pairing_wkdibe_signature_t sig;
    embedded_pairing_lqibe_params_t lqp;
    embedded_pairing_lqibe_masterkey_t lqm;
    embedded_pairing_lqibe_id_t lqid;
    embedded_pairing_lqibe_secretkey_t lqsk;
    embedded_pairing_lqibe_ciphertext_t lqct;
};

static void build_world(World& w, bool signatures) {
    snprintf(g_case, sizeof(g_case), "setup: building valid objects (signatures=%d)", signatures);
    w.params.h = (embedded_pairing_wkdibe_g1_t*) malloc(L * sizeof(embedded_pairing_wkdibe_g1_t));
    embedded_pairing_wkdibe_setup(&w.params, &w.msk, L, signatures, det_random);
    embedded_pairing_wkdibe_attribute_t attrs[2];
    memset(attrs, 0, sizeof(attrs));
    attrs[0].idx = 1; attrs[0].omitFromKeys = false; ((uint8_t*) &attrs[0].id)[0] = 7;
    attrs[1].idx = 2; attrs[1].omitFromKeys = true;
    embedded_pairing_wkdibe_attributelist_t al;
    al.attrs = attrs; al.length = 2; al.omitAllFromKeysUnlessPresent = false;
    w.key.b = (embedded_pairing_wkdibe_freeslot_t*) malloc((L - 2) * sizeof(embedded_pairing_wkdibe_freeslot_t));
    embedded_pairing_wkdibe_keygen(&w.key, &w.params, &w.msk, &al, det_random);
    embedded_pairing_wkdibe_attributelist_t al1;
    al1.attrs = attrs; al1.length = 1; al1.omitAllFromKeysUnlessPresent = false;
    embedded_pairing_wkdibe_gt_t msg;
    embedded_pairing_wkdibe_random_gt(&msg, det_random);
    embedded_pairing_wkdibe_encrypt(&w.ct, &msg, &w.params, &al1, det_random);
    embedded_pairing_wkdibe_gt_t back;
    embedded_pairing_wkdibe_decrypt(&back, &w.ct, &w.key);
    embedded_pairing_wkdibe_scalar_t m;
    memset(&m, 0x31, sizeof(m));
    embedded_pairing_wkdibe_sign(&w.sig, &w.params, &w.key, &al1, &m, det_random);
    embedded_pairing_wkdibe_verify(&w.params, &al1, &w.sig, &m);
    embedded_pairing_lqibe_setup(&w.lqp, &w.lqm, det_random);
    embedded_pairing_lqibe_idhash_t h;
    memset(&h, 0x42, sizeof(h));
    embedded_pairing_lqibe_compute_id_from_hash(&w.lqid, &h);
    embedded_pairing_lqibe_keygen(&w.lqsk, &w.lqm, &w.lqid);
    uint8_t sym[32], sym2[32];
    embedded_pairing_lqibe_encrypt(&w.lqct, sym, sizeof(sym), &w.lqp, &w.lqid, hash_fill, det_random);
    embedded_pairing_lqibe_decrypt(sym2, sizeof(sym2), &w.lqct, &w.lqsk, &w.lqid, hash_fill);
}

static void use_params(const params_t* p) {
    /* encrypt to the world key's pattern under the unmarshalled parameters; the world key must open it (result not judged here:
     * that is C15's business - the calls run under the sanitizers) */
    embedded_pairing_wkdibe_attribute_t attrs[2];
    memset(attrs, 0, sizeof(attrs));
    attrs[0].idx = 1; ((uint8_t*) &attrs[0].id)[0] = 7;
    attrs[1].idx = (uint32_t) (p->l - 1); ((uint8_t*) &attrs[1].id)[0] = 9;
    embedded_pairing_wkdibe_attributelist_t al;
    al.attrs = attrs; al.length = (p->l - 1 > 1) ? 2 : 1; al.omitAllFromKeysUnlessPresent = false;
    embedded_pairing_wkdibe_gt_t msg, back;
    embedded_pairing_wkdibe_random_gt(&msg, det_random);
    embedded_pairing_wkdibe_ciphertext_t ct;
    embedded_pairing_wkdibe_encrypt(&ct, &msg, p, &al, det_random);
    embedded_pairing_wkdibe_decrypt_master(&back, &ct, &g_world->msk);
    embedded_pairing_wkdibe_precomputed_t pre;
    embedded_pairing_wkdibe_precompute(&pre, p, &al);
    if (p->signatures) {
        embedded_pairing_wkdibe_scalar_t m;
        memset(&m, 0x31, sizeof(m));
        embedded_pairing_wkdibe_verify(p, &al, &g_world->sig, &m);
    }
    n_used++;
}

static void use_secretkey(const secretkey_t* k) {
    const params_t* p = &g_world->params;
    embedded_pairing_wkdibe_attribute_t attrs[2];
    memset(attrs, 0, sizeof(attrs));
    attrs[0].idx = 1; ((uint8_t*) &attrs[0].id)[0] = 7;
    embedded_pairing_wkdibe_attributelist_t al1;
    al1.attrs = attrs; al1.length = 1; al1.omitAllFromKeysUnlessPresent = false;
    embedded_pairing_wkdibe_precomputed_t pre;
    embedded_pairing_wkdibe_precompute(&pre, p, &al1);
    secretkey_t k2;
    memset(&k2, 0, sizeof(k2));
    k2.b = (embedded_pairing_wkdibe_freeslot_t*) malloc((size_t) (k->l > 0 ? k->l : 1) * sizeof(embedded_pairing_wkdibe_freeslot_t));
    embedded_pairing_wkdibe_resamplekey(&k2, p, &pre, k, true, det_random);
    embedded_pairing_wkdibe_gt_t back;
    embedded_pairing_wkdibe_decrypt(&back, &g_world->ct, &k2);
    if (k->l > 0) {
        /* fix the key's last free slot (its index is above the fixed slot 1 in the world key) */
        uint32_t idx = k->b[k->l - 1].idx;
        if (idx > 1 && idx < (uint32_t) p->l) {
            attrs[1].idx = idx; ((uint8_t*) &attrs[1].id)[0] = 9;
            embedded_pairing_wkdibe_attributelist_t al2;
            al2.attrs = attrs; al2.length = 2; al2.omitAllFromKeysUnlessPresent = false;
            embedded_pairing_wkdibe_qualifykey(&k2, p, k, &al2, det_random);
            embedded_pairing_wkdibe_nondelegable_qualifykey(&k2, p, k, &al2);
            if (k->signatures) {
                embedded_pairing_wkdibe_signature_t sg;
                embedded_pairing_wkdibe_scalar_t m;
                memset(&m, 0x31, sizeof(m));
                embedded_pairing_wkdibe_sign(&sg, p, k, &al2, &m, det_random);
            }
        }
    }
    free(k2.b);
    n_used++;
}

/* positions of embedded elements (offset, size) in the marshalled params / key for corruption fills */
static size_t element_offset(bool key, bool comp, bool sig, int k, size_t* size) {
    size_t g1 = comp ? 48 : 96, g2 = comp ? 96 : 192;
    if (!key) {
        size_t offs[16]; size_t sizes[16]; int n = 0; size_t o = 1;
        offs[n] = o; sizes[n++] = g2; o += g2;
        offs[n] = o; sizes[n++] = g2; o += g2;
        offs[n] = o; sizes[n++] = g1; o += g1;
        offs[n] = o; sizes[n++] = g1; o += g1;
        if (!comp) o += 576;
        if (sig) { offs[n] = o; sizes[n++] = g1; o += g1; }
        for (int i = 0; i < L; i++) { offs[n] = o; sizes[n++] = g1; o += g1; }
        k %= n; *size = sizes[k]; return offs[k];
    } else {
        size_t offs[16]; size_t sizes[16]; int n = 0; size_t o = 1;
        offs[n] = o; sizes[n++] = g1; o += g1;
        offs[n] = o; sizes[n++] = g2; o += g2;
        if (sig) { offs[n] = o; sizes[n++] = g1; o += g1; }
        for (int i = 0; i < L - 2; i++) { offs[n] = o; sizes[n++] = g1; o += g1 + 4; }
        k %= n; *size = sizes[k]; return offs[k];
    }
}

int main(int argc, char** argv) {
    if (argc < 6) { fprintf(stderr, "usage\n"); return 2; }
    signal(SIGSEGV, on_signal); signal(SIGBUS, on_signal); signal(SIGFPE, on_signal);
    const char* kind = argv[1];
    bool comp = atoi(argv[2]) != 0, checked = atoi(argv[3]) != 0;
    const char* fill = argv[4];
    size_t start = strtoul(argv[5], 0, 10);
    size_t end = argc > 6 ? strtoul(argv[6], 0, 10) : (size_t) -1;
    bool sig = true;
    World w;
    build_world(w, sig);
    g_world = &w;

    if (!strcmp(kind, "params") || !strcmp(kind, "secretkey")) {
        bool key = !strcmp(kind, "secretkey");
        size_t vlen = key ? embedded_pairing_wkdibe_secretkey_get_marshalled_length(&w.key, comp) : embedded_pairing_wkdibe_params_get_marshalled_length(&w.params, comp);
        size_t lmax = (key ? embedded_pairing_wkdibe_secretkey_marshalled_length(L, true, comp) : embedded_pairing_wkdibe_params_marshalled_length(L, true, comp)) + 64;
        if (end > lmax) end = lmax;
        uint8_t* valid = (uint8_t*) malloc(vlen);
        snprintf(g_case, sizeof(g_case), "setup: marshal of a valid %s (compressed=%d)", kind, comp);
        if (key) embedded_pairing_wkdibe_secretkey_marshal(valid, &w.key, comp); else embedded_pairing_wkdibe_params_marshal(valid, &w.params, comp);
        uint8_t* base = (uint8_t*) malloc(lmax + 1);
        if (!strcmp(fill, "zeros")) memset(base, 0, lmax + 1);
        else if (!strcmp(fill, "ones")) memset(base, 0xFF, lmax + 1);
        else {
            /* valid object, extended by repeating its last slot pattern */
            for (size_t i = 0; i <= lmax; i++) base[i] = i < vlen ? valid[i] : valid[vlen - (key ? (comp ? 52 : 100) : (comp ? 48 : 96)) + ((i - vlen) % (key ? (comp ? 52 : 100) : (comp ? 48 : 96)))];
            if (!strncmp(fill, "corrupt", 7)) {
                size_t esz; size_t off = element_offset(key, comp, sig, atoi(fill + 7), &esz);
                memset(base + off + 1, 0xA7, esz - 1);      /* keeps the flag byte, destroys the coordinate */
                base[off] ^= (atoi(fill + 7) & 1) ? 0x80 : 0x40;
            }
        }
        static const uint8_t firsts[3] = {0, 1, 0xFF};
        for (size_t len = start ? start : 1; len <= end; len++) {
            for (int fb = 0; fb < 4; fb++) {
                uint8_t saved = base[0];
                if (fb < 3) base[0] = firsts[fb];
                else if (strcmp(fill, "valid") && strncmp(fill, "corrupt", 7)) { continue; }      /* 4th variant: the object's own first byte */
                snprintf(g_case, sizeof(g_case), "%s compressed=%d checked=%d fill=%s len=%zu first=%d", kind, comp, checked, fill, len, fb < 3 ? firsts[fb] : -1);
                g_use = (fb == 3 && len == vlen && !strcmp(fill, "valid"));
                if (key) parse_secretkey(base, len, comp, checked); else parse_params(base, len, comp, checked);
                g_use = false;
                base[0] = saved;
            }
        }
        printf("STAT {\"kind\":\"%s\",\"compressed\":%d,\"checked\":%d,\"fill\":\"%s\",\"calls\":%llu,\"lengths_accepted\":%llu,\"objects_accepted\":%llu,\"remarshalled\":%llu,\"used_afterwards\":%llu,\"last_len\":%zu}\n",
               kind, comp, checked, fill, n_calls, n_lengths_ok, n_accepted, n_remarshal, n_used, end);
        return 0;
    }

    if (!strcmp(kind, "large") || !strcmp(kind, "larger")) {
        /* sizes as operands: parameter sets with l = 5..257 slots FRESH FROM SETUP (projective points with z != 1, which unmarshalled objects
         * never have) and keys with many free slots are marshalled, parsed through the Go protocol and marshalled again */
        /* "large": EVERY l = 3..40 and 63..65 (20 slots with signatures is the deployed configuration); "larger" (thorough tier): every l = 41..130,
         * 255..257 and one key whose slot area exceeds 64 KiB */
        static int Ls[200];
        size_t nLs = 0;
        if (!strcmp(kind, "large")) { for (int l = 3; l <= 40; l++) Ls[nLs++] = l; Ls[nLs++] = 63; Ls[nLs++] = 64; Ls[nLs++] = 65; }
        else { for (int l = 41; l <= 130; l++) if (l < 63 || l > 65) Ls[nLs++] = l; Ls[nLs++] = 255; Ls[nLs++] = 256; Ls[nLs++] = 257; Ls[nLs++] = 700; }
        unsigned long long nlarge = 0;
        for (size_t li = 0; li < nLs; li++) {
            if (li < start || li > end) continue;
            int l = Ls[li];
            for (int s = 0; s < 2; s++) {
                snprintf(g_case, sizeof(g_case), "large l=%d signatures=%d compressed=%d checked=%d idx=%zu", l, s, comp, checked, li);
                params_t p; embedded_pairing_wkdibe_masterkey_t msk;
                p.h = (embedded_pairing_wkdibe_g1_t*) malloc((size_t) l * sizeof(embedded_pairing_wkdibe_g1_t));
                embedded_pairing_wkdibe_setup(&p, &msk, l, s != 0, det_random);
                size_t ml = embedded_pairing_wkdibe_params_get_marshalled_length(&p, comp);
                uint8_t* out = (uint8_t*) malloc(ml);
                embedded_pairing_wkdibe_params_marshal(out, &p, comp);
                parse_params(out, ml, comp, checked);
                /* a key with l-2 free slots */
                embedded_pairing_wkdibe_attribute_t attrs[2];
                memset(attrs, 0, sizeof(attrs));
                attrs[0].idx = 0; ((uint8_t*) &attrs[0].id)[0] = 7;
                attrs[1].idx = (uint32_t) (l - 1); ((uint8_t*) &attrs[1].id)[0] = 9;
                embedded_pairing_wkdibe_attributelist_t al; al.attrs = attrs; al.length = 2; al.omitAllFromKeysUnlessPresent = false;
                secretkey_t k; k.b = (embedded_pairing_wkdibe_freeslot_t*) malloc((size_t) (l - 2) * sizeof(embedded_pairing_wkdibe_freeslot_t));
                embedded_pairing_wkdibe_keygen(&k, &p, &msk, &al, det_random);
                size_t kl = embedded_pairing_wkdibe_secretkey_get_marshalled_length(&k, comp);
                uint8_t* kout = (uint8_t*) malloc(kl);
                embedded_pairing_wkdibe_secretkey_marshal(kout, &k, comp);
                parse_secretkey(kout, kl, comp, checked);
                free(kout); free(k.b);
                /* a key with all l slots free */
                al.length = 0;
                k.b = (embedded_pairing_wkdibe_freeslot_t*) malloc((size_t) l * sizeof(embedded_pairing_wkdibe_freeslot_t));
                embedded_pairing_wkdibe_keygen(&k, &p, &msk, &al, det_random);
                kl = embedded_pairing_wkdibe_secretkey_get_marshalled_length(&k, comp);
                kout = (uint8_t*) malloc(kl);
                embedded_pairing_wkdibe_secretkey_marshal(kout, &k, comp);
                parse_secretkey(kout, kl, comp, checked);
                free(kout); free(k.b); free(out); free(p.h);
                nlarge += 3;
            }
        }
        printf("STAT {\"kind\":\"large\",\"compressed\":%d,\"checked\":%d,\"fill\":\"alphabet\",\"calls\":%llu,\"lengths_accepted\":0,\"objects_accepted\":%llu,\"remarshalled\":%llu,\"last_len\":16}\n",
               comp, checked, nlarge, n_accepted, n_remarshal);
        return 0;
    }

    if (!strcmp(kind, "placement")) {
        /* buffer placement: the marshalling interface takes untyped byte buffers, which callers embed at arbitrary offsets (a frame with
         * a 4-byte length prefix, a packed record): every valid object is marshalled to and unmarshalled from a buffer whose start
         * address is base+off for EVERY off in 0..15 (the allocation is off+len bytes, so the buffer still ends at the red zone) */
        unsigned long long nplace = 0;
        for (size_t off = 0; off < 16; off++) {
            size_t g1 = comp ? 48 : 96, g2 = comp ? 96 : 192;
            for (int id = 0; id < 13; id++) {
                size_t len = 0;
                switch (id) {
                    case 0: len = embedded_pairing_wkdibe_ciphertext_get_marshalled_length(comp); break;
                    case 1: len = embedded_pairing_wkdibe_signature_get_marshalled_length(comp); break;
                    case 2: len = embedded_pairing_wkdibe_masterkey_get_marshalled_length(comp); break;
                    case 3: len = embedded_pairing_lqibe_params_get_marshalled_length(comp); break;
                    case 4: len = embedded_pairing_lqibe_id_get_marshalled_length(comp); break;
                    case 5: len = embedded_pairing_lqibe_masterkey_get_marshalled_length(comp); break;
                    case 6: len = embedded_pairing_lqibe_secretkey_get_marshalled_length(comp); break;
                    case 7: len = embedded_pairing_lqibe_ciphertext_get_marshalled_length(comp); break;
                    case 8: len = g1; break;
                    case 9: len = g2; break;
                    case 10: len = 576; break;
                    case 11: len = embedded_pairing_wkdibe_params_get_marshalled_length(&w.params, comp); break;
                    case 12: len = embedded_pairing_wkdibe_secretkey_get_marshalled_length(&w.key, comp); break;
                }
                uint8_t* m = (uint8_t*) malloc(off + len);
                uint8_t* buf = m + off;
                snprintf(g_case, sizeof(g_case), "placement object=%d compressed=%d checked=%d offset=%zu idx=%zu", id, comp, checked, off, off * 13 + id);
                embedded_pairing_bls12_381_g1affine_t a1; embedded_pairing_bls12_381_g2affine_t a2;
                bool ok = true;
                switch (id) {
                    case 0: { embedded_pairing_wkdibe_ciphertext_marshal(buf, &w.ct, comp); embedded_pairing_wkdibe_ciphertext_t x; ok = embedded_pairing_wkdibe_ciphertext_unmarshal(&x, buf, comp, checked); break; }
                    case 1: { embedded_pairing_wkdibe_signature_marshal(buf, &w.sig, comp); embedded_pairing_wkdibe_signature_t x; ok = embedded_pairing_wkdibe_signature_unmarshal(&x, buf, comp, checked); break; }
                    case 2: { embedded_pairing_wkdibe_masterkey_marshal(buf, &w.msk, comp); embedded_pairing_wkdibe_masterkey_t x; ok = embedded_pairing_wkdibe_masterkey_unmarshal(&x, buf, comp, checked); break; }
                    case 3: { embedded_pairing_lqibe_params_marshal(buf, &w.lqp, comp); embedded_pairing_lqibe_params_t x; ok = embedded_pairing_lqibe_params_unmarshal(&x, buf, comp, checked); break; }
                    case 4: { embedded_pairing_lqibe_id_marshal(buf, &w.lqid, comp); embedded_pairing_lqibe_id_t x; ok = embedded_pairing_lqibe_id_unmarshal(&x, buf, comp, checked); break; }
                    case 5: { embedded_pairing_lqibe_masterkey_marshal(buf, &w.lqm, comp); embedded_pairing_lqibe_masterkey_t x; ok = embedded_pairing_lqibe_masterkey_unmarshal(&x, buf, comp, checked); break; }
                    case 6: { embedded_pairing_lqibe_secretkey_marshal(buf, &w.lqsk, comp); embedded_pairing_lqibe_secretkey_t x; ok = embedded_pairing_lqibe_secretkey_unmarshal(&x, buf, comp, checked); break; }
                    case 7: { embedded_pairing_lqibe_ciphertext_marshal(buf, &w.lqct, comp); embedded_pairing_lqibe_ciphertext_t x; ok = embedded_pairing_lqibe_ciphertext_unmarshal(&x, buf, comp, checked); break; }
                    case 8: { embedded_pairing_bls12_381_g1affine_from_projective(&a1, &w.params.g2); embedded_pairing_bls12_381_g1_marshal(buf, &a1, comp); embedded_pairing_bls12_381_g1affine_t x; ok = embedded_pairing_bls12_381_g1_unmarshal(&x, buf, comp, checked); break; }
                    case 9: { embedded_pairing_bls12_381_g2affine_from_projective(&a2, &w.params.g); embedded_pairing_bls12_381_g2_marshal(buf, &a2, comp); embedded_pairing_bls12_381_g2affine_t x; ok = embedded_pairing_bls12_381_g2_unmarshal(&x, buf, comp, checked); break; }
                    case 10: { embedded_pairing_bls12_381_gt_marshal(buf, &w.params.pairing); embedded_pairing_bls12_381_fq12_t x; embedded_pairing_bls12_381_gt_unmarshal(&x, buf); break; }
                    case 11: { embedded_pairing_wkdibe_params_marshal(buf, &w.params, comp); parse_params(buf, len, comp, checked); break; }
                    case 12: { embedded_pairing_wkdibe_secretkey_marshal(buf, &w.key, comp); parse_secretkey(buf, len, comp, checked); break; }
                }
                /* zp_from_hash / hash-to-curve read byte buffers too */
                if (id == 8 && len >= 48) { embedded_pairing_core_bigint_256_t z; embedded_pairing_bls12_381_zp_from_hash(&z, buf); embedded_pairing_bls12_381_g1affine_from_hash(&a1, buf); }
                if (id == 9 && len >= 96) { embedded_pairing_bls12_381_g2affine_from_hash(&a2, buf); }
                if (ok) n_accepted++;
                n_calls++; nplace++;
                free(m);
            }
        }
        printf("STAT {\"kind\":\"placement\",\"compressed\":%d,\"checked\":%d,\"fill\":\"alphabet\",\"calls\":%llu,\"lengths_accepted\":0,\"objects_accepted\":%llu,\"remarshalled\":%llu,\"last_len\":16}\n",
               comp, checked, nplace, n_accepted, nplace);
        return 0;
    }

    /* fixed-size objects */
    struct Fixed { const char* name; size_t len; int id; };
    size_t g1 = comp ? 48 : 96, g2 = comp ? 96 : 192;
    Fixed objs[] = {{"wk_ciphertext", 576 + g2 + g1, 0}, {"wk_signature", g1 + g2, 1}, {"wk_masterkey", g1, 2}, {"lq_params", 2 * g2, 3}, {"lq_id", g1, 4},
                    {"lq_masterkey", 32, 5}, {"lq_secretkey", g1, 6}, {"lq_ciphertext", g2, 7}, {"g1", g1, 8}, {"g2", g2, 9}, {"gt", 576, 10}};
    size_t idx = 0;
    for (Fixed& o : objs) {
        uint8_t* valid = (uint8_t*) malloc(o.len);
        snprintf(g_case, sizeof(g_case), "setup: marshal of a valid %s (compressed=%d)", o.name, comp);
        embedded_pairing_bls12_381_g1affine_t a1; embedded_pairing_bls12_381_g2affine_t a2;
        switch (o.id) {
            case 0: embedded_pairing_wkdibe_ciphertext_marshal(valid, &w.ct, comp); break;
            case 1: embedded_pairing_wkdibe_signature_marshal(valid, &w.sig, comp); break;
            case 2: embedded_pairing_wkdibe_masterkey_marshal(valid, &w.msk, comp); break;
            case 3: embedded_pairing_lqibe_params_marshal(valid, &w.lqp, comp); break;
            case 4: embedded_pairing_lqibe_id_marshal(valid, &w.lqid, comp); break;
            case 5: embedded_pairing_lqibe_masterkey_marshal(valid, &w.lqm, comp); break;
            case 6: embedded_pairing_lqibe_secretkey_marshal(valid, &w.lqsk, comp); break;
            case 7: embedded_pairing_lqibe_ciphertext_marshal(valid, &w.lqct, comp); break;
            case 8: embedded_pairing_bls12_381_g1affine_from_projective(&a1, &w.params.g2); embedded_pairing_bls12_381_g1_marshal(valid, &a1, comp); break;
            case 9: embedded_pairing_bls12_381_g2affine_from_projective(&a2, &w.params.g); embedded_pairing_bls12_381_g2_marshal(valid, &a2, comp); break;
            case 10: embedded_pairing_bls12_381_gt_marshal(valid, &w.params.pairing); break;
        }
        /* byte alphabet: valid; zeros; ones; every first byte over the valid tail; every position flipped in turn (stride) */
        for (int variant = 0; variant < 3 + 256 + (int) o.len; variant++, idx++) {
            if (idx < start || idx > end) continue;
            uint8_t* buf = (uint8_t*) malloc(o.len);
            memcpy(buf, valid, o.len);
            if (variant == 1) memset(buf, 0, o.len);
            else if (variant == 2) memset(buf, 0xFF, o.len);
            else if (variant >= 3 && variant < 259) buf[0] = (uint8_t) (variant - 3);
            else if (variant >= 259) buf[variant - 259] ^= 0x81;
            snprintf(g_case, sizeof(g_case), "fixed %s compressed=%d checked=%d variant=%d idx=%zu", o.name, comp, checked, variant, idx);
            bool ok = false;
            n_calls++;
            switch (o.id) {
                case 0: { embedded_pairing_wkdibe_ciphertext_t x; ok = embedded_pairing_wkdibe_ciphertext_unmarshal(&x, buf, comp, checked);
                          if (ok) { uint8_t* out = (uint8_t*) malloc(embedded_pairing_wkdibe_ciphertext_get_marshalled_length(comp)); embedded_pairing_wkdibe_ciphertext_marshal(out, &x, comp); free(out); n_remarshal++; } break; }
                case 1: { embedded_pairing_wkdibe_signature_t x; ok = embedded_pairing_wkdibe_signature_unmarshal(&x, buf, comp, checked);
                          if (ok) { uint8_t* out = (uint8_t*) malloc(embedded_pairing_wkdibe_signature_get_marshalled_length(comp)); embedded_pairing_wkdibe_signature_marshal(out, &x, comp); free(out); n_remarshal++; } break; }
                case 2: { embedded_pairing_wkdibe_masterkey_t x; ok = embedded_pairing_wkdibe_masterkey_unmarshal(&x, buf, comp, checked);
                          if (ok) { uint8_t* out = (uint8_t*) malloc(embedded_pairing_wkdibe_masterkey_get_marshalled_length(comp)); embedded_pairing_wkdibe_masterkey_marshal(out, &x, comp); free(out); n_remarshal++; } break; }
                case 3: { embedded_pairing_lqibe_params_t x; ok = embedded_pairing_lqibe_params_unmarshal(&x, buf, comp, checked);
                          if (ok) { uint8_t* out = (uint8_t*) malloc(embedded_pairing_lqibe_params_get_marshalled_length(comp)); embedded_pairing_lqibe_params_marshal(out, &x, comp); free(out); n_remarshal++; } break; }
                case 4: { embedded_pairing_lqibe_id_t x; ok = embedded_pairing_lqibe_id_unmarshal(&x, buf, comp, checked);
                          if (ok) { uint8_t* out = (uint8_t*) malloc(embedded_pairing_lqibe_id_get_marshalled_length(comp)); embedded_pairing_lqibe_id_marshal(out, &x, comp); free(out); n_remarshal++; } break; }
                case 5: { embedded_pairing_lqibe_masterkey_t x; ok = embedded_pairing_lqibe_masterkey_unmarshal(&x, buf, comp, checked);
                          if (ok) { uint8_t* out = (uint8_t*) malloc(embedded_pairing_lqibe_masterkey_get_marshalled_length(comp)); embedded_pairing_lqibe_masterkey_marshal(out, &x, comp); free(out); n_remarshal++; } break; }
                case 6: { embedded_pairing_lqibe_secretkey_t x; ok = embedded_pairing_lqibe_secretkey_unmarshal(&x, buf, comp, checked);
                          if (ok) { uint8_t* out = (uint8_t*) malloc(embedded_pairing_lqibe_secretkey_get_marshalled_length(comp)); embedded_pairing_lqibe_secretkey_marshal(out, &x, comp); free(out); n_remarshal++; } break; }
                case 7: { embedded_pairing_lqibe_ciphertext_t x; ok = embedded_pairing_lqibe_ciphertext_unmarshal(&x, buf, comp, checked);
                          if (ok) { uint8_t* out = (uint8_t*) malloc(embedded_pairing_lqibe_ciphertext_get_marshalled_length(comp)); embedded_pairing_lqibe_ciphertext_marshal(out, &x, comp); free(out); n_remarshal++; } break; }
                case 8: { embedded_pairing_bls12_381_g1affine_t x; ok = embedded_pairing_bls12_381_g1_unmarshal(&x, buf, comp, checked);
                          if (ok) { uint8_t* out = (uint8_t*) malloc(g1); embedded_pairing_bls12_381_g1_marshal(out, &x, comp); free(out); n_remarshal++; } break; }
                case 9: { embedded_pairing_bls12_381_g2affine_t x; ok = embedded_pairing_bls12_381_g2_unmarshal(&x, buf, comp, checked);
                          if (ok) { uint8_t* out = (uint8_t*) malloc(g2); embedded_pairing_bls12_381_g2_marshal(out, &x, comp); free(out); n_remarshal++; } break; }
                case 10: { embedded_pairing_bls12_381_fq12_t x; embedded_pairing_bls12_381_gt_unmarshal(&x, buf); ok = true;
                          uint8_t* out = (uint8_t*) malloc(576); embedded_pairing_bls12_381_gt_marshal(out, &x); free(out); n_remarshal++; break; }
            }
            if (ok) n_accepted++;
            free(buf);
        }
        free(valid);
    }
    printf("STAT {\"kind\":\"fixed\",\"compressed\":%d,\"checked\":%d,\"fill\":\"alphabet\",\"calls\":%llu,\"lengths_accepted\":0,\"objects_accepted\":%llu,\"remarshalled\":%llu,\"last_len\":%zu}\n",
           comp, checked, n_calls, n_accepted, n_remarshal, idx);
    return 0;
}
