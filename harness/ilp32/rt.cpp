/*
 * Run-time support for executing the library as a static i386 (ILP32) Linux program without a 32-bit C library: entry point,
 * write / exit system calls, the C memory primitives and the 64-bit division helpers the compiler may call.
 */
#include <stddef.h>
#include <stdint.h>

extern "C" {
int main(void);

static long sys3(long nr, long a, long b, long c) {
    long ret;
    __asm__ volatile("int $0x80" : "=a"(ret) : "a"(nr), "b"(a), "c"(b), "d"(c) : "memory");
    return ret;
}
void vk_emit(const char* s, size_t n) { sys3(4, 1, (long) s, (long) n); }

void* memcpy(void* dst, const void* src, size_t n) { unsigned char* d = (unsigned char*) dst; const unsigned char* s = (const unsigned char*) src; for (size_t i = 0; i != n; i++) d[i] = s[i]; return dst; }
void* memmove(void* dst, const void* src, size_t n) {
    unsigned char* d = (unsigned char*) dst; const unsigned char* s = (const unsigned char*) src;
    if (d < s) { for (size_t i = 0; i != n; i++) d[i] = s[i]; } else { for (size_t i = n; i != 0; i--) d[i - 1] = s[i - 1]; }
    return dst;
}
void* memset(void* dst, int c, size_t n) { unsigned char* d = (unsigned char*) dst; for (size_t i = 0; i != n; i++) d[i] = (unsigned char) c; return dst; }
int memcmp(const void* a, const void* b, size_t n) {
    const unsigned char* x = (const unsigned char*) a; const unsigned char* y = (const unsigned char*) b;
    for (size_t i = 0; i != n; i++) if (x[i] != y[i]) return x[i] < y[i] ? -1 : 1;
    return 0;
}
int bcmp(const void* a, const void* b, size_t n) { return memcmp(a, b, n); }
size_t strlen(const char* s) { size_t n = 0; while (s[n]) n++; return n; }
int puts(const char* s) { vk_emit(s, strlen(s)); vk_emit("\n", 1); return 0; }
int printf(const char* fmt, ...) { vk_emit(fmt, strlen(fmt)); return 0; }

static uint64_t udivmod64(uint64_t n, uint64_t d, uint64_t* rem) {
    uint64_t q = 0, r = 0;
    for (int i = 63; i >= 0; i--) {
        uint64_t top = r >> 63;
        r = (r << 1) | ((n >> i) & 1);
        if (top || r >= d) { r -= d; q |= (uint64_t) 1 << i; }
    }
    if (rem) *rem = r;
    return q;
}
uint64_t __udivdi3(uint64_t n, uint64_t d) { return udivmod64(n, d, 0); }
uint64_t __umoddi3(uint64_t n, uint64_t d) { uint64_t r; udivmod64(n, d, &r); return r; }
uint64_t __udivmoddi4(uint64_t n, uint64_t d, uint64_t* rem) { return udivmod64(n, d, rem); }
void __stack_chk_fail(void) { sys3(1, 99, 0, 0); }

/* the library has dynamic initialisers (constants built at load time): run them as a C library's start-up code would */
extern void (*__preinit_array_start[])(void) __attribute__((weak));
extern void (*__preinit_array_end[])(void) __attribute__((weak));
extern void (*__init_array_start[])(void) __attribute__((weak));
extern void (*__init_array_end[])(void) __attribute__((weak));

__attribute__((force_align_arg_pointer)) void vk_start_c(void) {
    for (void (**f)(void) = __preinit_array_start; f < __preinit_array_end; f++) (*f)();
    for (void (**f)(void) = __init_array_start; f < __init_array_end; f++) (*f)();
    int rv = main();
    sys3(1, rv, 0, 0);
    for (;;) { }
}
__asm__(".globl _start\n_start:\n\txorl %ebp, %ebp\n\tandl $-16, %esp\n\tcall vk_start_c\n");
}
