/* <string.h> of the freestanding ILP32 (i386) build of harness/platform_vectors.cpp: the memory primitives the library may reference */
#ifndef VK_ILP32_STRING_H_
#define VK_ILP32_STRING_H_
#include <stddef.h>
#ifdef __cplusplus
extern "C" {
#endif
void* memcpy(void* dst, const void* src, size_t n);
void* memmove(void* dst, const void* src, size_t n);
void* memset(void* dst, int c, size_t n);
int memcmp(const void* a, const void* b, size_t n);
int bcmp(const void* a, const void* b, size_t n);
size_t strlen(const char* s);
#ifdef __cplusplus
}
#endif
#endif
