/* <stdio.h> of the freestanding ILP32 build: the library includes it in one file for a debugging helper that is never called */
#ifndef VK_ILP32_STDIO_H_
#define VK_ILP32_STDIO_H_
#include <stddef.h>
#ifdef __cplusplus
extern "C" {
#endif
int printf(const char* fmt, ...);
int puts(const char* s);
#ifdef __cplusplus
}
#endif
#endif
