/*
 * C03 / C10: "keys, ciphertexts and hashes are identical whichever back end a device was built with" - decided by EXECUTING the library
 * under another data model. This program uses the C interface only; it is built (a) natively against the x86-64 builds and (b) as a static
 * freestanding i386 executable (ILP32: int = long = pointer = 32 bits, 32-bit words, no assembly; run-time support in harness/ilp32/), and
 * prints one line per result: "<group> <index> <digest of the marshalled result>".  The check compares the outputs line by line.
 * Everything is deterministic: scalars and hashes are built from word patterns, random sources are counter based.
 */
#include <stddef.h>
#include <stdint.h>
#include <string.h>

extern "C" {
#include "bls12_381/bls12_381.h"
#include "wkdibe/wkdibe.h"
#include "lqibe/lqibe.h"
}

#ifdef VK_FREESTANDING
extern "C" void vk_emit(const char* s, size_t n);
#else
#include <unistd.h>
static void vk_emit(const char* s, size_t n) { if (write(1, s, n) < 0) {} }
#endif

static uint64_t fnv(const void* p, size_t n, uint64_t h = 1469598103934665603ull) {
    const uint8_t* b = (const uint8_t*) p;
    for (size_t i = 0; i < n; i++) { h ^= b[i]; h *= 1099511628211ull; }
    return h;
}
static void line(const char* group, unsigned idx, uint64_t digest) {
    char buf[96];
    size_t n = 0;
    for (const char* c = group; *c; c++) buf[n++] = *c;
    buf[n++] = ' ';
    char tmp[12]; int t = 0;
    if (idx == 0) tmp[t++] = '0';
    while (idx) { tmp[t++] = (char) ('0' + idx % 10); idx /= 10; }
    while (t) buf[n++] = tmp[--t];
    buf[n++] = ' ';
    for (int i = 15; i >= 0; i--) buf[n++] = "0123456789abcdef"[(digest >> (4 * i)) & 15];
    buf[n++] = '\n';
    vk_emit(buf, n);
}

/* counter-based random source (per use re-seeded) */
static uint64_t rs;
static void det_random(void* out, size_t n) {
    uint8_t* p = (uint8_t*) out;
    for (size_t i = 0; i < n; i++) { rs ^= rs << 13; rs ^= rs >> 7; rs ^= rs << 17; p[i] = (uint8_t) (rs >> 29); }
}
static void hash_fill(void* out, size_t outlen, const void* in, size_t inlen) {
    uint64_t h = fnv(in, inlen);
    uint8_t* o = (uint8_t*) out;
    for (size_t i = 0; i < outlen; i++) { h ^= h << 13; h ^= h >> 7; h ^= h << 17; o[i] = (uint8_t) (h >> 24); }
}

typedef embedded_pairing_core_bigint_256_t scalar_t;
static void set_words32(scalar_t* s, const uint32_t w[8]) { uint8_t* b = (uint8_t*) s; for (int i = 0; i < 8; i++) for (int k = 0; k < 4; k++) b[4 * i + k] = (uint8_t) (w[i] >> (8 * k)); }

static const int MAXS = 400;
static scalar_t S[MAXS];
static int NS = 0;
static void add_scalar(const uint32_t w[8]) { if (NS < MAXS) set_words32(&S[NS++], w); }
static void build_scalars() {
    uint32_t w[8];
    /* 2^k - 1, 2^k, 2^k + 1 for every k that is a multiple of 16, and the neighbours of 2^32 / 2^64 / 2^128 multiples */
    for (int k = 0; k <= 256; k += 16) {
        for (int d = -1; d <= 1; d++) {
            memset(w, 0, sizeof(w));
            if (k < 256) w[k / 32] = 1u << (k % 32);
            if (d == 1) { w[0] += 1; }
            if (d == -1) { /* subtract one */ int i = 0; while (i < 8 && w[i] == 0) { w[i] = 0xFFFFFFFFu; i++; } if (i < 8) w[i] -= 1; else if (k == 256) { } }
            if (k == 256 && d != -1) continue;
            add_scalar(w);
        }
    }
    /* every scalar with exactly one or two non-zero 32-bit words out of {1, 0x80000000, 0xFFFFFFFF}: word-skipping and width-truncating shortcuts see them */
    static const uint32_t pat[3] = {1u, 0x80000000u, 0xFFFFFFFFu};
    for (int i = 0; i < 8; i++) for (int a = 0; a < 3; a++) { memset(w, 0, sizeof(w)); w[i] = pat[a]; add_scalar(w); }
    for (int i = 0; i < 8; i++) for (int j = i + 1; j < 8; j++) { memset(w, 0, sizeof(w)); w[i] = 0xFFFFFFFFu; w[j] = 1u; add_scalar(w); memset(w, 0, sizeof(w)); w[i] = 1u; w[j] = 0x80000000u; add_scalar(w); }
    /* group order r and neighbours, 2r, all ones */
    static const uint32_t r32[8] = {0x00000001u, 0xffffffffu, 0xfffe5bfeu, 0x53bda402u, 0x09a1d805u, 0x3339d808u, 0x299d7d48u, 0x73eda753u};
    for (int d = -2; d <= 2; d++) { memcpy(w, r32, sizeof(w)); if (d < 0) { uint32_t b = (uint32_t) (-d); int i = 0; while (b) { uint32_t o = w[i]; w[i] -= b; b = o < b ? 1 : 0; i++; } } else { uint32_t c = (uint32_t) d; int i = 0; while (c && i < 8) { uint32_t o = w[i]; w[i] += c; c = w[i] < o ? 1 : 0; i++; } } add_scalar(w); }
    for (int i = 0; i < 8; i++) w[i] = 0xFFFFFFFFu;
    add_scalar(w);
    for (int i = 0; i < 8; i++) w[i] = 0x55555555u;
    add_scalar(w);
    /* fillers */
    uint64_t x = 0x9E3779B97F4A7C15ull;
    for (int n = 0; n < 24; n++) { for (int i = 0; i < 8; i++) { x ^= x << 13; x ^= x >> 7; x ^= x << 17; w[i] = (uint32_t) (x >> 16); } if (n % 3 == 0) w[7] &= 0x3FFFFFFFu; add_scalar(w); }
}

#ifdef VK_FREESTANDING
extern "C" int main(void);      /* no special treatment of main in a freestanding translation unit */
#endif
int main(void) {
    build_scalars();
    embedded_pairing_bls12_381_g1_t g1, p1;
    embedded_pairing_bls12_381_g2_t g2, p2;
    embedded_pairing_bls12_381_g1affine_t a1;
    embedded_pairing_bls12_381_g2affine_t a2;
    embedded_pairing_bls12_381_fq12_t t;
    uint8_t buf[600];
    embedded_pairing_bls12_381_g1_from_affine(&g1, embedded_pairing_bls12_381_g1affine_generator);
    embedded_pairing_bls12_381_g2_from_affine(&g2, embedded_pairing_bls12_381_g2affine_generator);

    for (int i = 0; i < NS; i++) {
        embedded_pairing_bls12_381_g1_multiply(&p1, &g1, &S[i]);
        embedded_pairing_bls12_381_g1affine_from_projective(&a1, &p1);
        embedded_pairing_bls12_381_g1_marshal(buf, &a1, false);
        line("g1_multiply", (unsigned) i, fnv(buf, 96));
        embedded_pairing_bls12_381_g1_multiply_affine(&p1, embedded_pairing_bls12_381_g1affine_generator, &S[i]);
        embedded_pairing_bls12_381_g1affine_from_projective(&a1, &p1);
        embedded_pairing_bls12_381_g1_marshal(buf, &a1, true);
        line("g1_multiply_affine", (unsigned) i, fnv(buf, 48));
        scalar_t z;
        uint8_t h32[32];
        for (int k = 0; k < 32; k++) h32[k] = ((const uint8_t*) &S[i])[31 - k];
        embedded_pairing_bls12_381_zp_from_hash(&z, h32);
        line("zp_from_hash", (unsigned) i, fnv(&z, 32));
        memcpy(&z, &S[i], 32);
        embedded_pairing_wkdibe_scalar_hash_reduce((embedded_pairing_wkdibe_scalar_t*) &z);
        line("scalar_hash_reduce", (unsigned) i, fnv(&z, 32));
        if (i % 4 == 0) {
            embedded_pairing_bls12_381_g2_multiply(&p2, &g2, &S[i]);
            embedded_pairing_bls12_381_g2affine_from_projective(&a2, &p2);
            embedded_pairing_bls12_381_g2_marshal(buf, &a2, false);
            line("g2_multiply", (unsigned) i, fnv(buf, 192));
        }
        if (i % 8 == 0) {
            embedded_pairing_bls12_381_gt_multiply(&t, embedded_pairing_bls12_381_gt_generator, &S[i]);
            embedded_pairing_bls12_381_gt_marshal(buf, &t);
            line("gt_multiply", (unsigned) i, fnv(buf, 576));
        }
    }
    /* hashing to the curve: 48 / 96 byte strings from the scalar patterns (repeated) */
    for (int i = 0; i < NS; i += 5) {
        uint8_t h[96];
        for (int k = 0; k < 96; k++) h[k] = ((const uint8_t*) &S[i])[k % 32] ^ (uint8_t) (k / 32);
        embedded_pairing_bls12_381_g1affine_from_hash(&a1, h);
        embedded_pairing_bls12_381_g1_marshal(buf, &a1, false);
        line("g1affine_from_hash", (unsigned) i, fnv(buf, 96));
        embedded_pairing_lqibe_id_t id;
        embedded_pairing_lqibe_compute_id_from_hash(&id, (const embedded_pairing_lqibe_idhash_t*) h);
        embedded_pairing_lqibe_id_marshal(buf, &id, true);
        line("lqibe_id", (unsigned) i, fnv(buf, embedded_pairing_lqibe_id_get_marshalled_length(true)));
        if (i % 20 == 0) {
            embedded_pairing_bls12_381_g2affine_from_hash(&a2, h);
            embedded_pairing_bls12_381_g2_marshal(buf, &a2, false);
            line("g2affine_from_hash", (unsigned) i, fnv(buf, 192));
        }
    }
    /* sampling from a fixed random stream */
    for (unsigned i = 0; i < 6; i++) {
        scalar_t z;
        rs = 0x1234567ull + i; embedded_pairing_bls12_381_zp_random(&z, det_random); line("zp_random", i, fnv(&z, 32));
        rs = 0x2345671ull + i; embedded_pairing_bls12_381_g1_random(&p1, det_random); embedded_pairing_bls12_381_g1affine_from_projective(&a1, &p1); embedded_pairing_bls12_381_g1_marshal(buf, &a1, true); line("g1_random", i, fnv(buf, 48));
        rs = 0x3456712ull + i; embedded_pairing_bls12_381_gt_multiply_random(&t, &z, embedded_pairing_bls12_381_gt_generator, det_random); embedded_pairing_bls12_381_gt_marshal(buf, &t); line("gt_multiply_random", i, fnv(buf, 576, fnv(&z, 32)));
    }
    rs = 0x4567123ull; embedded_pairing_bls12_381_g2_random(&p2, det_random); embedded_pairing_bls12_381_g2affine_from_projective(&a2, &p2); embedded_pairing_bls12_381_g2_marshal(buf, &a2, true); line("g2_random", 0, fnv(buf, 96));
    /* pairings */
    for (int i = 0; i < NS; i += 97) {
        embedded_pairing_bls12_381_g1_multiply(&p1, &g1, &S[i]);
        embedded_pairing_bls12_381_g1affine_from_projective(&a1, &p1);
        embedded_pairing_bls12_381_g2_multiply(&p2, &g2, &S[(i + 13) % NS]);
        embedded_pairing_bls12_381_g2affine_from_projective(&a2, &p2);
        embedded_pairing_bls12_381_pairing(&t, &a1, &a2);
        embedded_pairing_bls12_381_gt_marshal(buf, &t);
        line("pairing", (unsigned) i, fnv(buf, 576));
    }
    /* a WKD-IBE run and an LQ-IBE run: everything that travels (parameters, keys, ciphertexts, signatures) as marshalled bytes */
    {
        static embedded_pairing_wkdibe_g1_t hs[6];
        static embedded_pairing_wkdibe_freeslot_t b1[6], b2[6];
        static uint8_t big[4096];
        embedded_pairing_wkdibe_params_t params; params.h = hs;
        embedded_pairing_wkdibe_masterkey_t msk;
        rs = 0x5671234ull; embedded_pairing_wkdibe_setup(&params, &msk, 6, true, det_random);
        embedded_pairing_wkdibe_params_marshal(big, &params, true);
        line("wkdibe_params", 0, fnv(big, embedded_pairing_wkdibe_params_get_marshalled_length(&params, true)));
        embedded_pairing_wkdibe_attribute_t at[3];
        memset(at, 0, sizeof(at));
        at[0].idx = 1; memcpy(&at[0].id, &S[40], 32);
        at[1].idx = 2; at[1].omitFromKeys = true;
        at[2].idx = 4; memcpy(&at[2].id, &S[NS - 3], 32);
        embedded_pairing_wkdibe_attributelist_t al = {at, 2, false}, al3 = {at, 3, false};
        embedded_pairing_wkdibe_secretkey_t k1, k2; k1.b = b1; k2.b = b2;
        rs = 0x6712345ull; embedded_pairing_wkdibe_keygen(&k1, &params, &msk, &al, det_random);
        embedded_pairing_wkdibe_secretkey_marshal(big, &k1, false);
        line("wkdibe_key", 0, fnv(big, embedded_pairing_wkdibe_secretkey_get_marshalled_length(&k1, false)));
        rs = 0x7123456ull; embedded_pairing_wkdibe_qualifykey(&k2, &params, &k1, &al3, det_random);
        embedded_pairing_wkdibe_secretkey_marshal(big, &k2, true);
        line("wkdibe_key", 1, fnv(big, embedded_pairing_wkdibe_secretkey_get_marshalled_length(&k2, true)));
        embedded_pairing_wkdibe_nondelegable_qualifykey(&k2, &params, &k1, &al3);
        embedded_pairing_wkdibe_secretkey_marshal(big, &k2, true);
        line("wkdibe_key", 2, fnv(big, embedded_pairing_wkdibe_secretkey_get_marshalled_length(&k2, true)));
        embedded_pairing_wkdibe_attribute_t ct_at[2];
        memcpy(ct_at, at, sizeof(ct_at)); ct_at[1] = at[2];
        embedded_pairing_wkdibe_attributelist_t cal = {ct_at, 2, false};
        embedded_pairing_wkdibe_gt_t msg, back;
        rs = 0x1234576ull; embedded_pairing_wkdibe_random_gt(&msg, det_random);
        embedded_pairing_wkdibe_ciphertext_t ct;
        rs = 0x2345167ull; embedded_pairing_wkdibe_encrypt(&ct, &msg, &params, &cal, det_random);
        embedded_pairing_wkdibe_ciphertext_marshal(big, &ct, true);
        line("wkdibe_ciphertext", 0, fnv(big, embedded_pairing_wkdibe_ciphertext_get_marshalled_length(true)));
        embedded_pairing_wkdibe_decrypt(&back, &ct, &k2);
        line("wkdibe_decrypt_ok", 0, (uint64_t) (memcmp(&back, &msg, sizeof(msg)) == 0));
        embedded_pairing_wkdibe_signature_t sg;
        rs = 0x3451267ull; embedded_pairing_wkdibe_sign(&sg, &params, &k1, &cal, (const embedded_pairing_wkdibe_scalar_t*) &S[77], det_random);
        embedded_pairing_wkdibe_signature_marshal(big, &sg, true);
        line("wkdibe_signature", 0, fnv(big, embedded_pairing_wkdibe_signature_get_marshalled_length(true)));
        line("wkdibe_verify", 0, (uint64_t) embedded_pairing_wkdibe_verify(&params, &cal, &sg, (const embedded_pairing_wkdibe_scalar_t*) &S[77]));
        line("wkdibe_verify", 1, (uint64_t) embedded_pairing_wkdibe_verify(&params, &cal, &sg, (const embedded_pairing_wkdibe_scalar_t*) &S[78]));

        embedded_pairing_lqibe_params_t lp; embedded_pairing_lqibe_masterkey_t lm; embedded_pairing_lqibe_id_t lid; embedded_pairing_lqibe_secretkey_t lsk; embedded_pairing_lqibe_ciphertext_t lct;
        rs = 0x4512367ull; embedded_pairing_lqibe_setup(&lp, &lm, det_random);
        embedded_pairing_lqibe_params_marshal(big, &lp, true);
        line("lqibe_params", 0, fnv(big, embedded_pairing_lqibe_params_get_marshalled_length(true)));
        uint8_t idh[48];
        for (int k = 0; k < 48; k++) idh[k] = (uint8_t) (7 * k + 3);
        embedded_pairing_lqibe_compute_id_from_hash(&lid, (const embedded_pairing_lqibe_idhash_t*) idh);
        embedded_pairing_lqibe_keygen(&lsk, &lm, &lid);
        embedded_pairing_lqibe_secretkey_marshal(big, &lsk, true);
        line("lqibe_secretkey", 0, fnv(big, embedded_pairing_lqibe_secretkey_get_marshalled_length(true)));
        uint8_t s1[40], s2[40];
        rs = 0x5123467ull; embedded_pairing_lqibe_encrypt(&lct, s1, sizeof(s1), &lp, &lid, hash_fill, det_random);
        embedded_pairing_lqibe_decrypt(s2, sizeof(s2), &lct, &lsk, &lid, hash_fill);
        embedded_pairing_lqibe_ciphertext_marshal(big, &lct, true);
        line("lqibe_ciphertext", 0, fnv(big, embedded_pairing_lqibe_ciphertext_get_marshalled_length(true)));
        line("lqibe_symmetric_key", 0, fnv(s1, sizeof(s1)));
        line("lqibe_symmetric_key", 1, fnv(s2, sizeof(s2)));
    }
    line("end", 0, 0);
    return 0;
}
