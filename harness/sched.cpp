/*
 * C20 engine P: preemption-bounded schedule exploration of the real library code.
 *
 * The library (and the vk_ shim) is compiled with -finstrument-functions; every function entry at call depth <= D inside
 * a managed thread is a scheduling point.  Threads are real pthreads that hand over a baton: exactly one runs at a time.
 * The explorer enumerates ALL schedules of a 2-thread (optionally 3-thread) harness with at most B preemptions
 * (iterating B = 0, 1, 2), runs every schedule to completion and compares each thread's outputs with the outputs of the
 * sequential execution of the same operation.  A recorded schedule replays deterministically (asserted).
 *
 * In free-running mode (built with -fsanitize=thread, no scheduler) the same operation bodies run concurrently on 16
 * threads so that ThreadSanitizer can see unsynchronised accesses, which the serialising scheduler would hide.
 *
 * usage: sched list
 *        sched explore <opA> <opB> <bound> <depth> [<opC>]      -> prints STAT / FAIL lines
 *        sched replay <opA> <opB> <depth> <first> <c0,c1,...>   -> one schedule
 *        sched free <rounds>                                   -> free-running pass (TSan build)
 */
#include <pthread.h>
#include <stdint.h>
#include <stdio.h>
#include <stdlib.h>
#include <string.h>
#include <atomic>
#include <string>
#include <vector>

extern "C" {
#include "bls12_381/bls12_381.h"
#include "wkdibe/wkdibe.h"
#include "lqibe/lqibe.h"
}

#define NOINSTR __attribute__((no_instrument_function))

/* --------------------------------------------------------------------------------------------- shim entry points used */
extern "C" {
    void vk_fq_inverse(void*, const void*); void vk_fq_square_root(void*, const void*); void vk_fr_square_root(void*, const void*); void vk_fr_square(void*, const void*);
    void vk_fq2_multiply(void*, const void*, const void*); void vk_fq6_multiply(void*, const void*, const void*); void vk_fq12_multiply(void*, const void*, const void*);
    void vk_fq12_square_cyclotomic(void*, const void*); void vk_fq12_inverse(void*, const void*); void vk_fq2_square_root(void*, const void*);
    int vk_wnaf_recode_256_4(void*, const void*, int*);
    void vk_g1c_encode(void*, const void*); int vk_g1c_decode(void*, const void*, int); void vk_g2c_encode(void*, const void*); int vk_g2c_decode(void*, const void*, int);
    void vk_powersofx_decompose(void*, const void*); void vk_final_exponentiation(void*, const void*);
    void vk_g1_wnaf4_p_64(void*, const void*, const void*); void vk_g2_wnaf4_p_64(void*, const void*, const void*);
    void vk_fq12_exp_gt_nodiv64(void*, const void*, const void*);
}

/* --------------------------------------------------------------------------------------------- shared const inputs */
struct Inputs {
    embedded_pairing_bls12_381_fq_t fq_a;
    embedded_pairing_core_bigint_256_t fr_a;
    embedded_pairing_bls12_381_fq2_t fq2_a, fq2_b;
    embedded_pairing_bls12_381_fq6_t fq6_a, fq6_b;
    embedded_pairing_bls12_381_fq12_t fq12_a, fq12_b, gt;
    embedded_pairing_bls12_381_g1_t g1_a, g1_b;
    embedded_pairing_bls12_381_g2_t g2_a, g2_b;
    embedded_pairing_bls12_381_g1affine_t g1aff;
    embedded_pairing_bls12_381_g2affine_t g2aff;
    embedded_pairing_core_bigint_256_t scalar, short_scalar;
    uint8_t hash[96];
    uint8_t g1enc[48], g2enc[96];
    embedded_pairing_wkdibe_params_t params;
    embedded_pairing_wkdibe_masterkey_t msk;
    embedded_pairing_wkdibe_secretkey_t key;
    embedded_pairing_wkdibe_ciphertext_t ct;
    embedded_pairing_wkdibe_attribute_t attr;
    embedded_pairing_wkdibe_attributelist_t al;
    embedded_pairing_wkdibe_gt_t msg;
    embedded_pairing_wkdibe_g1_t hbuf[2];
    embedded_pairing_wkdibe_freeslot_t bbuf[2];
    /* second setup with signature support, a key with one free slot, a signature; LQ-IBE objects for two identities */
    embedded_pairing_wkdibe_params_t sparams;
    embedded_pairing_wkdibe_masterkey_t smsk;
    embedded_pairing_wkdibe_secretkey_t skey;
    embedded_pairing_wkdibe_signature_t sig;
    embedded_pairing_wkdibe_scalar_t sigmsg;
    embedded_pairing_wkdibe_attribute_t attr2;
    embedded_pairing_wkdibe_attributelist_t al2;
    embedded_pairing_wkdibe_g1_t shbuf[2];
    embedded_pairing_wkdibe_freeslot_t sbbuf[2];
    embedded_pairing_bls12_381_g2prepared_t prep;
    embedded_pairing_lqibe_params_t lqparams;
    embedded_pairing_lqibe_masterkey_t lqmsk;
    embedded_pairing_lqibe_id_t lqid[2];
    embedded_pairing_lqibe_secretkey_t lqsk[2];
    embedded_pairing_lqibe_ciphertext_t lqct[2];
};
static Inputs IN;
static Inputs IN0;          /* pristine copy: every operation takes its inputs as const, so IN must never change */

struct Out { uint8_t bytes[1024]; };

static uint64_t rs = 0x243F6A8885A308D3ull;
static NOINSTR void det_random(void* buf, size_t n) {
    uint8_t* p = (uint8_t*) buf;
    for (size_t i = 0; i < n; i++) { rs ^= rs << 13; rs ^= rs >> 7; rs ^= rs << 17; p[i] = (uint8_t) (rs >> 24); }
}
/* per-thread deterministic stream for operations that consume randomness (each thread has its own state) */
static thread_local uint64_t trs;
static NOINSTR void thread_random(void* buf, size_t n) {
    uint8_t* p = (uint8_t*) buf;
    for (size_t i = 0; i < n; i++) { trs ^= trs << 13; trs ^= trs >> 7; trs ^= trs << 17; p[i] = (uint8_t) (trs >> 24); }
}

/* caller-side hash for LQ-IBE: a deterministic expansion of the bytes the library hands over.  Runs in the caller's context, where a
 * real application may be preempted or may itself call into the library: an explicit scheduling point (declared below). */
static NOINSTR void hash_fill_impl(void* out, size_t n, const void* in, size_t inlen) {
    uint64_t h = 0xcbf29ce484222325ull;
    const uint8_t* p = (const uint8_t*) in;
    for (size_t i = 0; i < inlen; i++) { h ^= p[i]; h *= 0x100000001b3ull; }
    uint8_t* o = (uint8_t*) out;
    for (size_t i = 0; i < n; i++) { h ^= h << 13; h ^= h >> 7; h ^= h << 17; o[i] = (uint8_t) (h >> 32); }
}
static NOINSTR void hash_fill_cb(void* out, size_t n, const void* in, size_t inlen);

static NOINSTR void build_inputs() {
    memset(&IN, 0, sizeof(IN));
    embedded_pairing_bls12_381_g1_random(&IN.g1_a, det_random);
    embedded_pairing_bls12_381_g1_random(&IN.g1_b, det_random);
    embedded_pairing_bls12_381_g2_random(&IN.g2_a, det_random);
    embedded_pairing_bls12_381_g2_random(&IN.g2_b, det_random);
    embedded_pairing_bls12_381_g1affine_from_projective(&IN.g1aff, &IN.g1_a);
    embedded_pairing_bls12_381_g2affine_from_projective(&IN.g2aff, &IN.g2_a);
    memcpy(&IN.fq_a, &IN.g1aff.x, sizeof(IN.fq_a));
    memcpy(&IN.fq2_a, &IN.g2aff.x, sizeof(IN.fq2_a));
    memcpy(&IN.fq2_b, &IN.g2aff.y, sizeof(IN.fq2_b));
    memcpy(&IN.fq6_a, &IN.g2_a, sizeof(IN.fq6_a));
    memcpy(&IN.fq6_b, &IN.g2_b, sizeof(IN.fq6_b));
    embedded_pairing_bls12_381_pairing(&IN.gt, &IN.g1aff, &IN.g2aff);
    memcpy(&IN.fq12_a, &IN.gt, sizeof(IN.gt));
    embedded_pairing_bls12_381_gt_add(&IN.fq12_b, &IN.gt, &IN.gt);
    embedded_pairing_bls12_381_zp_random(&IN.scalar, det_random);
    embedded_pairing_bls12_381_zp_random(&IN.fr_a, det_random);
    vk_fr_square(&IN.fr_a, &IN.fr_a);       /* the square-root operation gets a SQUARE: Fr::square_root need not terminate on a non-residue, and which element a random draw yields is not fixed */
    memset(&IN.short_scalar, 0, sizeof(IN.short_scalar));
    ((uint8_t*) &IN.short_scalar)[0] = 0xB5; ((uint8_t*) &IN.short_scalar)[1] = 0x2C;
    det_random(IN.hash, sizeof(IN.hash));
    vk_g1c_encode(IN.g1enc, &IN.g1aff);
    vk_g2c_encode(IN.g2enc, &IN.g2aff);
    IN.params.h = IN.hbuf;
    embedded_pairing_wkdibe_setup(&IN.params, &IN.msk, 2, false, det_random);
    memset(&IN.attr, 0, sizeof(IN.attr));
    IN.attr.idx = 0; ((uint8_t*) &IN.attr.id)[0] = 9; IN.attr.omitFromKeys = false;
    IN.al.attrs = &IN.attr; IN.al.length = 1; IN.al.omitAllFromKeysUnlessPresent = false;
    IN.key.b = IN.bbuf;
    embedded_pairing_wkdibe_keygen(&IN.key, &IN.params, &IN.msk, &IN.al, det_random);
    embedded_pairing_wkdibe_random_gt(&IN.msg, det_random);
    embedded_pairing_wkdibe_encrypt(&IN.ct, &IN.msg, &IN.params, &IN.al, det_random);
    IN.sparams.h = IN.shbuf;
    embedded_pairing_wkdibe_setup(&IN.sparams, &IN.smsk, 2, true, det_random);
    IN.skey.b = IN.sbbuf;
    embedded_pairing_wkdibe_keygen(&IN.skey, &IN.sparams, &IN.smsk, &IN.al, det_random);
    memset(&IN.attr2, 0, sizeof(IN.attr2));
    IN.attr2.idx = 1; ((uint8_t*) &IN.attr2.id)[0] = 5; IN.attr2.omitFromKeys = false;
    IN.al2.attrs = &IN.attr2; IN.al2.length = 1; IN.al2.omitAllFromKeysUnlessPresent = false;
    embedded_pairing_bls12_381_zp_random(&IN.sigmsg, det_random);
    embedded_pairing_wkdibe_sign(&IN.sig, &IN.sparams, &IN.skey, &IN.al, &IN.sigmsg, det_random);
    embedded_pairing_bls12_381_g2prepared_prepare(&IN.prep, &IN.g2aff);
    embedded_pairing_lqibe_setup(&IN.lqparams, &IN.lqmsk, det_random);
    for (int i = 0; i < 2; i++) {
        embedded_pairing_lqibe_idhash_t h; det_random(&h, sizeof(h));
        embedded_pairing_lqibe_compute_id_from_hash(&IN.lqid[i], &h);
        embedded_pairing_lqibe_keygen(&IN.lqsk[i], &IN.lqmsk, &IN.lqid[i]);
        uint8_t sym[32];
        embedded_pairing_lqibe_encrypt(&IN.lqct[i], sym, sizeof(sym), &IN.lqparams, &IN.lqid[i], hash_fill_impl, det_random);
    }
    memcpy(&IN0, &IN, sizeof(IN));
}

/* const-input monitor: true if some operation wrote to the shared inputs (restores them) */
static NOINSTR bool inputs_modified() {
    if (memcmp(&IN, &IN0, sizeof(IN)) == 0) return false;
    memcpy(&IN, &IN0, sizeof(IN));
    return true;
}

/* --------------------------------------------------------------------------------------------- operation menu */
typedef void (*opfn)(Out&);
#define OP(name) static void op_##name(Out& o)
/* Outputs are compared byte for byte between schedules, so they must hold VALUES only: the padding bytes of a struct (after the bool of an
 * affine point, after a key's flag or a slot's index) are unspecified - a library that decodes into a local and assigns the struct leaves
 * whatever the thread's stack held there.  Affine results are canonicalised in place, keys are packed field by field. */
static NOINSTR void canon_aff(uint8_t* p, size_t coord_bytes, size_t total) {
    p[coord_bytes] = p[coord_bytes] ? 1 : 0;
    if (total > coord_bytes + 1) memset(p + coord_bytes + 1, 0, total - coord_bytes - 1);
}
#define CANON_G1AFF(p) canon_aff((uint8_t*) (p), 96, sizeof(embedded_pairing_bls12_381_g1affine_t))
#define CANON_G2AFF(p) canon_aff((uint8_t*) (p), 192, sizeof(embedded_pairing_bls12_381_g2affine_t))
static NOINSTR void pack_key(uint8_t* out, const embedded_pairing_wkdibe_secretkey_t* k, const embedded_pairing_wkdibe_freeslot_t* b, int nb) {
    size_t n = 0;
    memcpy(out + n, &k->a0, sizeof(k->a0)); n += sizeof(k->a0);
    memcpy(out + n, &k->a1, sizeof(k->a1)); n += sizeof(k->a1);
    memcpy(out + n, &k->l, sizeof(k->l)); n += sizeof(k->l);
    out[n++] = k->signatures ? 1 : 0;
    memcpy(out + n, &k->bsig, sizeof(k->bsig)); n += sizeof(k->bsig);
    for (int i = 0; i < nb; i++) {
        memcpy(out + n, &b[i].hexp, sizeof(b[i].hexp)); n += sizeof(b[i].hexp);
        memcpy(out + n, &b[i].idx, sizeof(b[i].idx)); n += sizeof(b[i].idx);
    }
}

OP(fq_inverse) { vk_fq_inverse(o.bytes, &IN.fq_a); }
OP(fq_sqrt) { vk_fq_square_root(o.bytes, &IN.fq_a); }
OP(fr_sqrt) { vk_fr_square_root(o.bytes, &IN.fr_a); }
OP(fq2_multiply) { vk_fq2_multiply(o.bytes, &IN.fq2_a, &IN.fq2_b); }
OP(fq2_sqrt) { vk_fq2_square_root(o.bytes, &IN.fq2_a); }
OP(fq6_multiply) { vk_fq6_multiply(o.bytes, &IN.fq6_a, &IN.fq6_b); }
OP(fq12_multiply) { vk_fq12_multiply(o.bytes, &IN.fq12_a, &IN.fq12_b); }
OP(fq12_inverse) { vk_fq12_inverse(o.bytes, &IN.fq12_a); }
OP(cyclotomic_square) { vk_fq12_square_cyclotomic(o.bytes, &IN.gt); }
OP(g1_add) { embedded_pairing_bls12_381_g1_add((embedded_pairing_bls12_381_g1_t*) o.bytes, &IN.g1_a, &IN.g1_b); }
OP(g1_double) { embedded_pairing_bls12_381_g1_double((embedded_pairing_bls12_381_g1_t*) o.bytes, &IN.g1_a); }
OP(g2_add) { embedded_pairing_bls12_381_g2_add((embedded_pairing_bls12_381_g2_t*) o.bytes, &IN.g2_a, &IN.g2_b); }
OP(g2_double) { embedded_pairing_bls12_381_g2_double((embedded_pairing_bls12_381_g2_t*) o.bytes, &IN.g2_a); }
OP(g1_multiply_short) { vk_g1_wnaf4_p_64(o.bytes, &IN.g1_a, &IN.short_scalar); }
OP(g2_multiply_short) { vk_g2_wnaf4_p_64(o.bytes, &IN.g2_a, &IN.short_scalar); }
OP(gt_multiply_short) { vk_fq12_exp_gt_nodiv64(o.bytes, &IN.gt, &IN.short_scalar); }
OP(g1_multiply) { embedded_pairing_bls12_381_g1_multiply((embedded_pairing_bls12_381_g1_t*) o.bytes, &IN.g1_a, &IN.scalar); }
OP(g2_multiply) { embedded_pairing_bls12_381_g2_multiply((embedded_pairing_bls12_381_g2_t*) o.bytes, &IN.g2_a, &IN.scalar); }
OP(gt_multiply) { embedded_pairing_bls12_381_gt_multiply((embedded_pairing_bls12_381_fq12_t*) o.bytes, &IN.gt, &IN.scalar); }
OP(wnaf_recode) { int g; int n = vk_wnaf_recode_256_4(o.bytes, &IN.scalar, &g); memcpy(o.bytes + 300, &n, sizeof(n)); }
OP(decompose) { vk_powersofx_decompose(o.bytes, &IN.scalar); }
OP(g1_encode_decode) { vk_g1c_encode(o.bytes, &IN.g1aff); int ok = vk_g1c_decode(o.bytes + 64, IN.g1enc, 1); CANON_G1AFF(o.bytes + 64); o.bytes[400] = (uint8_t) ok; }
OP(g2_encode_decode) { vk_g2c_encode(o.bytes, &IN.g2aff); int ok = vk_g2c_decode(o.bytes + 128, IN.g2enc, 1); CANON_G2AFF(o.bytes + 128); o.bytes[600] = (uint8_t) ok; }
OP(hash_to_g1) { embedded_pairing_bls12_381_g1affine_from_hash((embedded_pairing_bls12_381_g1affine_t*) o.bytes, IN.hash); CANON_G1AFF(o.bytes); }
OP(hash_to_g2) { embedded_pairing_bls12_381_g2affine_from_hash((embedded_pairing_bls12_381_g2affine_t*) o.bytes, IN.hash); CANON_G2AFF(o.bytes); }
OP(hash_to_id) { embedded_pairing_lqibe_compute_id_from_hash((embedded_pairing_lqibe_id_t*) o.bytes, (const embedded_pairing_lqibe_idhash_t*) IN.hash); CANON_G1AFF(o.bytes); }
OP(zp_from_hash) { embedded_pairing_bls12_381_zp_from_hash((embedded_pairing_core_bigint_256_t*) o.bytes, IN.hash); }
OP(pairing) { embedded_pairing_bls12_381_pairing((embedded_pairing_bls12_381_fq12_t*) o.bytes, &IN.g1aff, &IN.g2aff); }
OP(final_exponentiation) { vk_final_exponentiation(o.bytes, &IN.fq12_b); }
OP(g1_random) { trs = 0x1234567ull; embedded_pairing_bls12_381_g1_random((embedded_pairing_bls12_381_g1_t*) o.bytes, thread_random); }
OP(wkdibe_encrypt) { trs = 0x7654321ull; embedded_pairing_wkdibe_encrypt((embedded_pairing_wkdibe_ciphertext_t*) o.bytes, &IN.msg, &IN.params, &IN.al, thread_random); }
OP(wkdibe_decrypt) { embedded_pairing_wkdibe_decrypt((embedded_pairing_wkdibe_gt_t*) o.bytes, &IN.ct, &IN.key); }

OP(g2_random) { trs = 0x2345671ull; embedded_pairing_bls12_381_g2_random((embedded_pairing_bls12_381_g2_t*) o.bytes, thread_random); }
OP(gt_random) { trs = 0x3456712ull; embedded_pairing_core_bigint_256_t k; embedded_pairing_bls12_381_gt_multiply_random((embedded_pairing_bls12_381_fq12_t*) o.bytes, &k, &IN.gt, thread_random); memcpy(o.bytes + 600, &k, 32); }
OP(prepared_pairing) { embedded_pairing_bls12_381_prepared_pairing((embedded_pairing_bls12_381_fq12_t*) o.bytes, &IN.g1aff, &IN.prep); }
OP(g2_prepare) { static_assert(sizeof(embedded_pairing_bls12_381_g2prepared_t) < 24000, ""); static thread_local embedded_pairing_bls12_381_g2prepared_t pr; embedded_pairing_bls12_381_g2prepared_prepare(&pr, &IN.g2aff); hash_fill_impl(o.bytes, 64, &pr, sizeof(pr)); }
OP(wkdibe_keygen) {
    trs = 0x4567123ull; embedded_pairing_wkdibe_secretkey_t k; embedded_pairing_wkdibe_freeslot_t b[2]; memset(&k, 0, sizeof(k)); memset(b, 0, sizeof(b)); k.b = b;
    embedded_pairing_wkdibe_keygen(&k, &IN.sparams, &IN.smsk, &IN.al, thread_random);
    pack_key(o.bytes, &k, b, 2);
}
OP(wkdibe_qualifykey) {
    trs = 0x5671234ull; embedded_pairing_wkdibe_secretkey_t k; embedded_pairing_wkdibe_freeslot_t b[2]; memset(&k, 0, sizeof(k)); memset(b, 0, sizeof(b)); k.b = b;
    embedded_pairing_wkdibe_qualifykey(&k, &IN.sparams, &IN.skey, &IN.al2, thread_random);
    pack_key(o.bytes, &k, b, 2);
}
OP(wkdibe_sign) { trs = 0x6712345ull; embedded_pairing_wkdibe_sign((embedded_pairing_wkdibe_signature_t*) o.bytes, &IN.sparams, &IN.skey, &IN.al, &IN.sigmsg, thread_random); }
OP(wkdibe_verify) { o.bytes[0] = embedded_pairing_wkdibe_verify(&IN.sparams, &IN.al, &IN.sig, &IN.sigmsg) ? 1 : 0; }
OP(wkdibe_params_marshal) { embedded_pairing_wkdibe_params_marshal(o.bytes, &IN.sparams, true); }
OP(wkdibe_precompute) { embedded_pairing_wkdibe_precompute((embedded_pairing_wkdibe_precomputed_t*) o.bytes, &IN.sparams, &IN.al); }
OP(lqibe_keygen) { embedded_pairing_lqibe_keygen((embedded_pairing_lqibe_secretkey_t*) o.bytes, &IN.lqmsk, &IN.lqid[0]); CANON_G1AFF(o.bytes); }
/* two identities: thread-local choice by the output address parity would be fragile; instead each op has a fixed identity */
OP(lqibe_encrypt0) { trs = 0x7123456ull; embedded_pairing_lqibe_encrypt((embedded_pairing_lqibe_ciphertext_t*) (o.bytes + 64), o.bytes, 32, &IN.lqparams, &IN.lqid[0], hash_fill_cb, thread_random); CANON_G2AFF(o.bytes + 64); }
OP(lqibe_encrypt1) { trs = 0x1234576ull; embedded_pairing_lqibe_encrypt((embedded_pairing_lqibe_ciphertext_t*) (o.bytes + 64), o.bytes, 32, &IN.lqparams, &IN.lqid[1], hash_fill_cb, thread_random); CANON_G2AFF(o.bytes + 64); }
OP(lqibe_decrypt0) { embedded_pairing_lqibe_decrypt(o.bytes, 32, &IN.lqct[0], &IN.lqsk[0], &IN.lqid[0], hash_fill_cb); }
OP(lqibe_decrypt1) { embedded_pairing_lqibe_decrypt(o.bytes, 32, &IN.lqct[1], &IN.lqsk[1], &IN.lqid[1], hash_fill_cb); }

struct OpEntry { const char* name; opfn fn; };
static OpEntry OPS[] = {
    {"fq_inverse", op_fq_inverse}, {"fq_sqrt", op_fq_sqrt}, {"fr_sqrt", op_fr_sqrt}, {"fq2_multiply", op_fq2_multiply}, {"fq2_sqrt", op_fq2_sqrt},
    {"fq6_multiply", op_fq6_multiply}, {"fq12_multiply", op_fq12_multiply}, {"fq12_inverse", op_fq12_inverse}, {"cyclotomic_square", op_cyclotomic_square},
    {"g1_add", op_g1_add}, {"g1_double", op_g1_double}, {"g2_add", op_g2_add}, {"g2_double", op_g2_double}, {"g1_multiply_short", op_g1_multiply_short},
    {"g2_multiply_short", op_g2_multiply_short}, {"gt_multiply_short", op_gt_multiply_short}, {"g1_multiply", op_g1_multiply}, {"g2_multiply", op_g2_multiply},
    {"gt_multiply", op_gt_multiply}, {"wnaf_recode", op_wnaf_recode}, {"decompose", op_decompose}, {"g1_encode_decode", op_g1_encode_decode},
    {"g2_encode_decode", op_g2_encode_decode}, {"hash_to_g1", op_hash_to_g1}, {"hash_to_g2", op_hash_to_g2}, {"hash_to_id", op_hash_to_id}, {"zp_from_hash", op_zp_from_hash},
    {"pairing", op_pairing}, {"final_exponentiation", op_final_exponentiation}, {"g1_random", op_g1_random}, {"wkdibe_encrypt", op_wkdibe_encrypt}, {"wkdibe_decrypt", op_wkdibe_decrypt},
    {"g2_random", op_g2_random}, {"gt_random", op_gt_random}, {"prepared_pairing", op_prepared_pairing}, {"g2_prepare", op_g2_prepare}, {"wkdibe_keygen", op_wkdibe_keygen},
    {"wkdibe_qualifykey", op_wkdibe_qualifykey}, {"wkdibe_sign", op_wkdibe_sign}, {"wkdibe_verify", op_wkdibe_verify}, {"wkdibe_params_marshal", op_wkdibe_params_marshal}, {"wkdibe_precompute", op_wkdibe_precompute}, {"lqibe_keygen", op_lqibe_keygen},
    {"lqibe_encrypt0", op_lqibe_encrypt0}, {"lqibe_encrypt1", op_lqibe_encrypt1}, {"lqibe_decrypt0", op_lqibe_decrypt0}, {"lqibe_decrypt1", op_lqibe_decrypt1},
};
static const int NOPS = sizeof(OPS) / sizeof(OPS[0]);
static NOINSTR int find_op(const char* n) { for (int i = 0; i < NOPS; i++) if (!strcmp(OPS[i].name, n)) return i; fprintf(stderr, "unknown op %s\n", n); exit(2); }

/* --------------------------------------------------------------------------------------------- scheduler */
static const int MAXT = 3;
static pthread_mutex_t mu = PTHREAD_MUTEX_INITIALIZER;
static pthread_cond_t cv[MAXT] = {PTHREAD_COND_INITIALIZER, PTHREAD_COND_INITIALIZER, PTHREAD_COND_INITIALIZER};
static int turn = -1;                 /* thread holding the baton */
static bool finished[MAXT];
static int nthreads = 2;
static int max_depth_of[3] = {2, 2, 2};
static unsigned long long depth_hist[64];
static bool counting = false;
static bool scheduling_on = false;

static thread_local int my_id = -1;   /* >= 0 inside a managed thread */
static thread_local int depth = 0;
static thread_local bool in_hook = false;

struct Point { int thread; uint8_t enabled_mask; };
static std::vector<Point> trace;      /* scheduling points of the current execution */
static std::vector<int> choices;      /* choice per point: 0 = continue, k>0 = switch to the k-th other enabled thread */

static NOINSTR int pick_other(int me, int k) {
    int seen = 0;
    for (int d = 1; d < nthreads; d++) {
        int t = (me + d) % nthreads;
        if (!finished[t]) { seen++; if (seen == k) return t; }
    }
    return -1;
}

static NOINSTR void yield_to(int me, int other) {
    /* mu is held */
    turn = other;
    pthread_cond_signal(&cv[other]);
    while (turn != me) pthread_cond_wait(&cv[me], &mu);
}

static NOINSTR void sched_point() {
    int me = my_id;
    pthread_mutex_lock(&mu);
    size_t idx = trace.size();
    uint8_t mask = 0;
    for (int t = 0; t < nthreads; t++) if (t != me && !finished[t]) mask |= (uint8_t) (1 << t);
    trace.push_back({me, mask});
    int c = idx < choices.size() ? choices[idx] : 0;
    if (c > 0) {
        int other = pick_other(me, c);
        if (other < 0) { fprintf(stderr, "DIVERGENCE: choice %d at point %zu has no enabled target\n", c, idx); _Exit(3); }
        yield_to(me, other);
    }
    pthread_mutex_unlock(&mu);
}

/* the caller's hash runs between two halves of a library call: always a scheduling point inside a managed thread, taken BEFORE the
 * bytes are consumed, so a library that hands over shared storage is exposed to the other thread while this one is parked */
static NOINSTR void hash_fill_cb(void* out, size_t n, const void* in, size_t inlen) {
    if (my_id >= 0 && scheduling_on && !in_hook) { in_hook = true; sched_point(); in_hook = false; }
    hash_fill_impl(out, n, in, inlen);
}

extern "C" NOINSTR void __cyg_profile_func_enter(void*, void*) {
    if (my_id < 0 || in_hook) return;
    depth++;
    if (counting) { if (depth < 64) depth_hist[depth]++; return; }
    if (scheduling_on && depth <= max_depth_of[my_id]) { in_hook = true; sched_point(); in_hook = false; }
}
extern "C" NOINSTR void __cyg_profile_func_exit(void*, void*) {
    if (my_id < 0 || in_hook) return;
    depth--;
}

struct ThreadArg { int id; opfn fn; Out* out; };
static NOINSTR void* thread_main(void* p) {
    ThreadArg* a = (ThreadArg*) p;
    pthread_mutex_lock(&mu);
    while (turn != a->id) pthread_cond_wait(&cv[a->id], &mu);
    pthread_mutex_unlock(&mu);
    my_id = a->id; depth = 0;
    a->fn(*a->out);
    my_id = -1;
    pthread_mutex_lock(&mu);
    finished[a->id] = true;
    int other = pick_other(a->id, 1);
    if (other >= 0) { turn = other; pthread_cond_signal(&cv[other]); } else turn = -1;
    pthread_mutex_unlock(&mu);
    return nullptr;
}

/* one complete execution under a given (first thread, choices); returns outputs */
static NOINSTR void execute(const int* ops, int first, const std::vector<int>& ch, Out* outs) {
    trace.clear();
    choices = ch;
    for (int t = 0; t < nthreads; t++) { finished[t] = false; memset(&outs[t], 0xCD, sizeof(Out)); }
    pthread_t th[MAXT];
    ThreadArg args[MAXT];
    turn = -1;
    scheduling_on = true;
    for (int t = 0; t < nthreads; t++) { args[t] = {t, OPS[ops[t]].fn, &outs[t]}; pthread_create(&th[t], nullptr, thread_main, &args[t]); }
    pthread_mutex_lock(&mu);
    turn = first;
    pthread_cond_signal(&cv[first]);
    pthread_mutex_unlock(&mu);
    for (int t = 0; t < nthreads; t++) pthread_join(th[t], nullptr);
    scheduling_on = false;
}

static unsigned long long n_exec = 0, n_fail = 0, n_points_max = 0, n_preempting = 0, n_points_total = 0;
static Out expected[MAXT];

static NOINSTR bool check(const int* ops, int first, const std::vector<int>& ch, Out* outs, bool report) {
    bool ok = true;
    if (inputs_modified()) {
        ok = false;
        if (report && n_fail < 5) {
            printf("FAIL {\"ops\":[");
            for (int i = 0; i < nthreads; i++) printf("%s\"%s\"", i ? "," : "", OPS[ops[i]].name);
            printf("],\"first\":%d,\"thread\":-1,\"const_inputs_modified\":true,\"choices\":\"", first);
            for (size_t i = 0; i < ch.size(); i++) printf("%s%d", i ? "," : "", ch[i]);
            printf("\"}\n");
        }
    }
    for (int t = 0; t < nthreads; t++) {
        if (memcmp(&outs[t], &expected[t], sizeof(Out)) != 0) {
            ok = false;
            if (report && n_fail < 5) {
                printf("FAIL {\"ops\":[");
                for (int i = 0; i < nthreads; i++) printf("%s\"%s\"", i ? "," : "", OPS[ops[i]].name);
                printf("],\"first\":%d,\"thread\":%d,\"choices\":\"", first, t);
                for (size_t i = 0; i < ch.size(); i++) printf("%s%d", i ? "," : "", ch[i]);
                printf("\"}\n");
            }
        }
    }
    return ok;
}

static NOINSTR int preemptions(const std::vector<int>& ch, const std::vector<Point>& tr) {
    int n = 0;
    for (size_t i = 0; i < ch.size() && i < tr.size(); i++) if (ch[i] > 0) n++;      /* at a scheduling point the running thread is still enabled */
    return n;
}

static NOINSTR void explore(const int* ops, int first, std::vector<int> prefix, int bound) {
    Out outs[MAXT];
    execute(ops, first, prefix, outs);
    n_exec++;
    std::vector<Point> tr = trace;
    if (tr.size() > n_points_max) n_points_max = tr.size();
    n_points_total += tr.size();
    if (!prefix.empty()) n_preempting++;
    if (!check(ops, first, prefix, outs, true)) n_fail++;
    int used = preemptions(prefix, tr);
    if (used >= bound) return;
    for (size_t i = prefix.size(); i < tr.size(); i++) {
        int nother = 0;
        for (int t = 0; t < nthreads; t++) if (tr[i].enabled_mask & (1 << t)) nother++;
        for (int k = 1; k <= nother; k++) {
            std::vector<int> p2(prefix);
            p2.resize(i, 0);
            p2.push_back(k);
            explore(ops, first, p2, bound);
        }
    }
}

int main(int argc, char** argv) {
    if (argc < 2) return 2;
    if (!strcmp(argv[1], "list")) { for (int i = 0; i < NOPS; i++) printf("%s\n", OPS[i].name); return 0; }
    build_inputs();
    if (!strcmp(argv[1], "free")) {
        /* free-running pass: all menu entries on 16 threads at once, several rounds, results compared with sequential */
        int rounds = argc > 2 ? atoi(argv[2]) : 2;
        static Out seq[96];
        int seqbad = 0;
        for (int i = 0; i < NOPS; i++) {
            memset(&seq[i], 0xCD, sizeof(Out)); OPS[i].fn(seq[i]);
            if (inputs_modified()) { seqbad++; printf("FAIL {\"free_running\":\"%s\",\"const_inputs_modified\":true}\n", OPS[i].name); }
        }
        struct FA { int start; int rounds; int bad; };
        auto body = [](void* p) -> void* {
            FA* a = (FA*) p;
            for (int r = 0; r < a->rounds; r++)
                for (int j = 0; j < NOPS; j++) {
                    int i = (a->start + j) % NOPS;
                    Out o; memset(&o, 0xCD, sizeof(o));
                    OPS[i].fn(o);
                    if (memcmp(&o, &seq[i], sizeof(Out)) != 0) { a->bad++; printf("FAIL {\"free_running\":\"%s\"}\n", OPS[i].name); }
                }
            return nullptr;
        };
        pthread_t th[16]; FA fa[16];
        for (int t = 0; t < 16; t++) { fa[t] = {t * 2, rounds, 0}; pthread_create(&th[t], nullptr, body, &fa[t]); }
        int bad = seqbad;
        for (int t = 0; t < 16; t++) { pthread_join(th[t], nullptr); bad += fa[t].bad; }
        if (inputs_modified()) { bad++; printf("FAIL {\"free_running\":\"*\",\"const_inputs_modified\":true}\n"); }
        printf("STAT {\"mode\":\"free\",\"threads\":16,\"ops\":%d,\"rounds\":%d,\"mismatches\":%d}\n", NOPS, rounds, bad);
        return bad ? 1 : 0;
    }
    if (!strcmp(argv[1], "count")) {
        /* function entries per call depth for every operation (sequential run inside a managed thread) */
        for (int i = 0; i < NOPS; i++) {
            memset(depth_hist, 0, sizeof(depth_hist));
            Out o;
            my_id = 0; depth = 0; counting = true;
            OPS[i].fn(o);
            counting = false; my_id = -1;
            printf("COUNT %s", OPS[i].name);
            for (int d = 1; d < 24; d++) printf(" %llu", depth_hist[d]);
            printf("\n");
        }
        return 0;
    }
    if (!strcmp(argv[1], "explore") && argc >= 6) {
        int ops[MAXT];
        ops[0] = find_op(argv[2]); ops[1] = find_op(argv[3]);
        int bound = atoi(argv[4]);
        /* depth limits per thread: "d" or "dA,dB[,dC]" */
        {
            int k = 0; char* dup = strdup(argv[5]);
            for (char* tok = strtok(dup, ","); tok && k < 3; tok = strtok(nullptr, ",")) max_depth_of[k++] = atoi(tok);
            for (; k < 3; k++) max_depth_of[k] = max_depth_of[k ? k - 1 : 0];
        }
        nthreads = 2;
        if (argc >= 7) { ops[2] = find_op(argv[6]); nthreads = 3; }
        for (int t = 0; t < nthreads; t++) {
            memset(&expected[t], 0xCD, sizeof(Out)); OPS[ops[t]].fn(expected[t]);
            if (inputs_modified()) {
                printf("FAIL {\"ops\":[\"%s\",\"%s\"],\"first\":0,\"thread\":%d,\"const_inputs_modified\":true,\"sequential\":true,\"choices\":\"\"}\n", OPS[ops[0]].name, OPS[ops[1]].name, t);
                n_fail++;
            }
        }
        if (n_fail) {
            /* an operation writes to its const inputs even when run alone: that is the finding; schedules would only repeat it */
            printf("STAT {\"mode\":\"explore\",\"ops\":[\"%s\",\"%s\"],\"bound\":%d,\"depth\":\"%s\",\"executions\":%d,\"preempting\":0,\"max_points\":0,\"total_points\":0,\"failures\":%llu}\n",
                   OPS[ops[0]].name, OPS[ops[1]].name, bound, argv[5], nthreads, n_fail);
            return 1;
        }
        /* determinism of replay: the same schedule twice gives the same trace */
        {
            Out o1[MAXT], o2[MAXT];
            std::vector<int> ch = {1};
            execute(ops, 0, ch, o1); std::vector<Point> t1 = trace; inputs_modified();
            execute(ops, 0, ch, o2); std::vector<Point> t2 = trace; inputs_modified();
            bool same = t1.size() == t2.size();
            for (size_t i = 0; same && i < t1.size(); i++) same = t1[i].thread == t2[i].thread && t1[i].enabled_mask == t2[i].enabled_mask;
            for (int t = 0; same && t < nthreads; t++) same = !memcmp(&o1[t], &o2[t], sizeof(Out));
            if (!same) { printf("NONDETERMINISTIC-REPLAY\n"); return 3; }
        }
        for (int first = 0; first < nthreads; first++) explore(ops, first, {}, bound);
        printf("STAT {\"mode\":\"explore\",\"ops\":[\"%s\",\"%s\"%s%s%s],\"bound\":%d,\"depth\":\"%s\",\"executions\":%llu,\"preempting\":%llu,\"max_points\":%llu,\"total_points\":%llu,\"failures\":%llu}\n",
               OPS[ops[0]].name, OPS[ops[1]].name, nthreads == 3 ? ",\"" : "", nthreads == 3 ? OPS[ops[2]].name : "", nthreads == 3 ? "\"" : "", bound, argv[5], n_exec, n_preempting, n_points_max, n_points_total, n_fail);
        return n_fail ? 1 : 0;
    }
    if (!strcmp(argv[1], "replay") && argc >= 7) {
        int ops[MAXT];
        ops[0] = find_op(argv[2]); ops[1] = find_op(argv[3]);
        {
            int k = 0; char* dup = strdup(argv[4]);
            for (char* tok = strtok(dup, ","); tok && k < 3; tok = strtok(nullptr, ",")) max_depth_of[k++] = atoi(tok);
            for (; k < 3; k++) max_depth_of[k] = max_depth_of[k ? k - 1 : 0];
        }
        int first = atoi(argv[5]);
        std::vector<int> ch;
        for (char* tok = strtok(argv[6], ","); tok; tok = strtok(nullptr, ",")) ch.push_back(atoi(tok));
        nthreads = 2;
        bool seqmod = false;
        for (int t = 0; t < nthreads; t++) { memset(&expected[t], 0xCD, sizeof(Out)); OPS[ops[t]].fn(expected[t]); seqmod = inputs_modified() || seqmod; }
        if (seqmod) { printf("STAT {\"mode\":\"replay\",\"points\":0,\"ok\":0,\"const_inputs_modified\":true}\n"); return 1; }
        Out outs[MAXT];
        execute(ops, first, ch, outs);
        bool ok = check(ops, first, ch, outs, true);
        printf("STAT {\"mode\":\"replay\",\"points\":%zu,\"ok\":%d}\n", trace.size(), ok ? 1 : 0);
        return ok ? 0 : 1;
    }
    return 2;
}
