/*
 * Differential sweep harness (C03, also used by C02 thorough): runs one operation of the multi-precision / modular
 * core over a Cartesian product of operands read from a file, in a fixed order, and prints one 64-bit digest per
 * chunk of cases.  The same binary source is compiled once per build configuration; the explorer compares the
 * digests of all configurations and bisects a differing chunk down to a single case.
 *
 * usage: sweep <bits:256|384> <op> <operands.bin> <start> <count> <chunk> <alias:0|1> <dispatch:-1|0|1>
 *   operands.bin: N values of bits/8 bytes (little endian); for op montgomery_reduce: values of bits/4 bytes
 *   binary ops enumerate index i -> (a = ops[i / N], b = ops[i % N]); unary ops i -> ops[i]
 *   with count == 1 and chunk == 0 the raw result is printed in hex (for replay / diagnosis)
 */
#include <stdint.h>
#include <stdio.h>
#include <stdlib.h>
#include <string.h>
#include <vector>

#include "core/bigint.hpp"
#include "core/fp.hpp"
#include "bls12_381/fq.hpp"
#include "bls12_381/fr.hpp"

using namespace embedded_pairing::core;
using namespace embedded_pairing::bls12_381;

#if !defined(DISABLE_ASM) && defined(__x86_64__)
/* The dispatch pointers and the two sets of routines are reached through weak references to their linker names, not through the
 * library's declarations: a library that organises its run-time dispatch differently (a const table, no pointers at all) still links,
 * and the harness then reports that the back end cannot be switched instead of failing to build. */
extern "C" {
    typedef void (*vk_fn_t)(void);
    extern vk_fn_t vk_rt_reduce __asm__("_ZN16embedded_pairing4core36runtime_fpbase_384_montgomery_reduceE") __attribute__((weak));
    extern vk_fn_t vk_rt_multiply __asm__("_ZN16embedded_pairing4core27runtime_bigint_768_multiplyE") __attribute__((weak));
    extern vk_fn_t vk_rt_square __asm__("_ZN16embedded_pairing4core25runtime_bigint_768_squareE") __attribute__((weak));
    void vk_base_reduce(void) __asm__("embedded_pairing_core_arch_x86_64_fpbase_384_montgomery_reduce") __attribute__((weak));
    void vk_fast_reduce(void) __asm__("embedded_pairing_core_arch_x86_64_bmi2_adx_fpbase_384_montgomery_reduce") __attribute__((weak));
    void vk_base_multiply(void) __asm__("embedded_pairing_core_arch_x86_64_bigint_768_multiply") __attribute__((weak));
    void vk_fast_multiply(void) __asm__("embedded_pairing_core_arch_x86_64_bmi2_adx_bigint_768_multiply") __attribute__((weak));
    void vk_base_square(void) __asm__("embedded_pairing_core_arch_x86_64_bigint_768_square") __attribute__((weak));
    void vk_fast_square(void) __asm__("embedded_pairing_core_arch_x86_64_bmi2_adx_bigint_768_square") __attribute__((weak));
    bool vk_probe(void) __asm__("embedded_pairing_core_arch_x86_64_cpu_supports_bmi2_adx") __attribute__((weak));
}
static bool vk_switchable(void) {
    return &vk_rt_reduce && &vk_rt_multiply && &vk_rt_square && vk_base_reduce && vk_fast_reduce && vk_base_multiply && vk_fast_multiply && vk_base_square && vk_fast_square;
}
static void set_dispatch(int mode) {
    if (mode < 0) return;
    if (!vk_switchable()) { fprintf(stderr, "NOTE nodispatch: the back end cannot be switched from outside; running with the library's own choice\n"); return; }
    if (mode == 0) { vk_rt_reduce = vk_base_reduce; vk_rt_multiply = vk_base_multiply; vk_rt_square = vk_base_square; }
    else if (mode == 1) { vk_rt_reduce = vk_fast_reduce; vk_rt_multiply = vk_fast_multiply; vk_rt_square = vk_fast_square; }
}
#else
static void set_dispatch(int) {}
#endif

static inline uint64_t mix(uint64_t h, uint64_t w) { return (h ^ w) * UINT64_C(0x100000001b3) + (h >> 29); }

template <int N>
static uint64_t digest(uint64_t h, const BigInt<N>& x, uint64_t flag) {
    for (int i = 0; i != N / 64; i++) h = mix(h, x.std_dwords[i]);
    return mix(h, flag);
}

template <int N>
struct Ops {
    static const BigInt<N>& modulus() { if constexpr (N == 384) return Fq::p_value; else return Fr::p_value; }
    static typename BigInt<N>::word_t inv() { if constexpr (N == 384) return Fq::inv_value.words[0]; else return Fr::inv_value.words[0]; }

    /* returns digest contribution; if dump, prints the raw result */
    static uint64_t run(const char* op, const uint8_t* pa, const uint8_t* pb, bool alias, bool dump) {
        BigInt<N> a, b;
        BigInt<2 * N> t;
        uint64_t h = UINT64_C(0xcbf29ce484222325);
        uint64_t flag = 0;
        if (!strcmp(op, "montgomery_reduce")) {
            memcpy(t.bytes, pa, N / 4);
            FpBase<N> o;
            o.montgomery_reduce(t, modulus(), inv());
            h = digest(h, o.val, 0);
            if (dump) dumpv(o.val, 0);
            return h;
        }
        memcpy(a.bytes, pa, N / 8);
        if (pb) memcpy(b.bytes, pb, N / 8);
        BigInt<N> o;
        FpBase<N>& fo = *reinterpret_cast<FpBase<N>*>(alias ? &a : &o);
        BigInt<N>& bo = alias ? a : o;
        const FpBase<N>& fa = *reinterpret_cast<const FpBase<N>*>(&a);
        const FpBase<N>& fb = *reinterpret_cast<const FpBase<N>*>(&b);
        if (!strcmp(op, "bi_add")) flag = bo.add(a, b) ? 1 : 0;
        else if (!strcmp(op, "bi_subtract")) flag = bo.subtract(a, b) ? 1 : 0;
        else if (!strcmp(op, "bi_shl1")) flag = bo.template shift_left_in_word<1>(a);
        else if (!strcmp(op, "bi_multiply")) { t.multiply(a, b); h = digest(h, t, 0); if (dump) dumpv(t, 0); return h; }
        else if (!strcmp(op, "bi_square")) { t.square(a); h = digest(h, t, 0); if (dump) dumpv(t, 0); return h; }
        else if (!strcmp(op, "fp_add")) fo.add(fa, fb, modulus());
        else if (!strcmp(op, "fp_subtract")) fo.subtract(fa, fb, modulus());
        else if (!strcmp(op, "fp_multiply2")) fo.multiply2(fa, modulus());
        else if (!strcmp(op, "fp_multiply") || !strcmp(op, "fp_square")) {
            /* domain: products below p * 2^N (checked on the product computed by this very configuration, so a wrong
               product shows up as a digest difference as well) */
            bool sq = !strcmp(op, "fp_square");
            if (sq) t.square(a); else t.multiply(a, b);
            if (BigInt<N>::compare(*reinterpret_cast<BigInt<N>*>(&t.bytes[N / 8]), modulus()) >= 0) return mix(h, 0x0D0Du);
            if (sq) fo.square(fa, modulus(), inv()); else fo.multiply(fa, fb, modulus(), inv());
        }
        else { fprintf(stderr, "unknown op %s\n", op); exit(2); }
        h = digest(h, bo, flag);
        if (dump) dumpv(bo, flag);
        return h;
    }

    template <int M>
    static void dumpv(const BigInt<M>& x, uint64_t flag) {
        printf("R ");
        for (int i = M / 8 - 1; i >= 0; i--) printf("%02x", x.bytes[i]);
        printf(" %llu\n", (unsigned long long) flag);
    }

    static int main_(int argc, char** argv) {
        const char* op = argv[2];
        bool unary = !strcmp(op, "bi_shl1") || !strcmp(op, "bi_square") || !strcmp(op, "fp_multiply2") || !strcmp(op, "fp_square") || !strcmp(op, "montgomery_reduce");
        size_t esz = !strcmp(op, "montgomery_reduce") ? N / 4 : N / 8;
        FILE* f = fopen(argv[3], "rb");
        if (!f) { perror("operands"); return 2; }
        std::vector<uint8_t> data;
        uint8_t buf[65536];
        size_t n;
        while ((n = fread(buf, 1, sizeof(buf), f)) > 0) data.insert(data.end(), buf, buf + n);
        fclose(f);
        uint64_t count_ops = data.size() / esz;
        uint64_t start = strtoull(argv[4], 0, 10), count = strtoull(argv[5], 0, 10), chunk = strtoull(argv[6], 0, 10);
        bool alias = atoi(argv[7]) != 0;
        set_dispatch(atoi(argv[8]));
        uint64_t total = unary ? count_ops : count_ops * count_ops;
        if (start + count > total) count = total > start ? total - start : 0;
        bool dump = (chunk == 0);
        uint64_t h = 0, inchunk = 0, chunk_idx = chunk ? start / chunk : 0;
        for (uint64_t i = start; i != start + count; i++) {
            const uint8_t* pa = unary ? &data[i * esz] : &data[(i / count_ops) * esz];
            const uint8_t* pb = unary ? nullptr : &data[(i % count_ops) * esz];
            h = mix(h, run(op, pa, pb, alias, dump));
            if (chunk && ++inchunk == chunk) {
                printf("H %llu %016llx\n", (unsigned long long) chunk_idx++, (unsigned long long) h);
                h = 0; inchunk = 0;
            }
        }
        if (chunk && inchunk) printf("H %llu %016llx\n", (unsigned long long) chunk_idx, (unsigned long long) h);
        printf("DONE %llu\n", (unsigned long long) count);
        return 0;
    }
};

int main(int argc, char** argv) {
    if (argc < 9) { fprintf(stderr, "usage\n"); return 2; }
    if (atoi(argv[1]) == 384) return Ops<384>::main_(argc, argv);
    return Ops<256>::main_(argc, argv);
}
