/*
 * Engine S: the library's arithmetic core templates (include/core/{bigint,fp,fp_utils}.hpp), unchanged, instantiated
 * with 8-bit words / 16-bit double words and 16-bit moduli, and run on ALL inputs.
 * Build: -U__SIZEOF_INT128__ -DDISABLE_ASM (selects the uint64_t/uint32_t branch), then the two macros below turn
 * that branch into uint16_t/uint8_t.  No repository source is modified.
 *
 * usage: w8 quick|thorough <part> <nparts>      w8 one <op> <p> <a> <b>
 */
#include <stdint.h>
#include <stdio.h>
#include <stdlib.h>
#include <string.h>

typedef uint32_t real_u32;
typedef uint64_t real_u64;

#define uint32_t uint8_t
#define uint64_t uint16_t
#include "core/bigint.hpp"
#include "core/fp.hpp"
#include "core/fp_utils.hpp"
using embedded_pairing::core::BigInt;      /* the scheme headers make BigInt visible at global scope in the same way (fq.hpp) */
#include "bls12_381/wnaf.hpp"
#undef uint32_t
#undef uint64_t

using namespace embedded_pairing::core;

static_assert(sizeof(BigInt<16>::word_t) == 1 && sizeof(BigInt<16>::dword_t) == 2, "8-bit words expected");
static_assert(BigInt<16>::word_length == 2 && BigInt<32>::word_length == 4, "word counts");

static constexpr real_u32 inv16(real_u32 p) {     /* -(p^-1) mod 2^16 */
    real_u32 x = 1;
    for (int i = 0; i < 5; i++) x = (x * (2 - p * x)) & 0xFFFF;
    return (0x10000 - x) & 0xFFFF;
}
#define BI16(v) {.std_words = {(uint8_t) ((v) & 0xFF), (uint8_t) (((v) >> 8) & 0xFF)}}
#define DEF_FIELD(NAME, P) \
    extern constexpr BigInt<16> NAME##_p = BI16(P); \
    extern constexpr BigInt<16> NAME##_r = BI16(65536u % (P)); \
    extern constexpr BigInt<16> NAME##_r2 = BI16(((65536u % (P)) * (65536u % (P))) % (P)); \
    extern constexpr BigInt<16> NAME##_inv = BI16(inv16(P)); \
    typedef Fp<16, NAME##_p, NAME##_r, NAME##_r2, NAME##_inv> NAME;

/* top byte 0x1a / 0x1f: three spare bits like q;  0x73 / 0x7f: one spare bit like r */
DEF_FIELD(FA, 6661u)     /* 0x1A05 */
DEF_FIELD(FB, 8191u)     /* 0x1FFF */
DEF_FIELD(FC, 29683u)    /* 0x73F3 */
DEF_FIELD(FD, 32749u)    /* 0x7FED */

static real_u32 val(const BigInt<16>& x) { return x.bytes[0] | (x.bytes[1] << 8); }
static void setv(BigInt<16>& x, real_u32 v) { x.bytes[0] = v & 0xFF; x.bytes[1] = (v >> 8) & 0xFF; }
static real_u32 val32(const BigInt<32>& x) { return x.bytes[0] | (x.bytes[1] << 8) | (x.bytes[2] << 16) | ((real_u32) x.bytes[3] << 24); }
static void setv32(BigInt<32>& x, real_u32 v) { for (int i = 0; i < 4; i++) x.bytes[i] = (v >> (8 * i)) & 0xFF; }

static real_u32 powmod(real_u32 b, real_u32 e, real_u32 p) {
    real_u64 r = 1, x = b % p;
    while (e) { if (e & 1) r = r * x % p; x = x * x % p; e >>= 1; }
    return (real_u32) r;
}

static int nfail_total = 0;
static void fail(const char* op, real_u32 p, real_u32 a, real_u32 b, real_u32 got, real_u32 exp) {
    static int per_op = 0;
    static char last[32] = "";
    if (strcmp(last, op)) { per_op = 0; strncpy(last, op, 31); }
    nfail_total++;
    if (per_op++ < 3) printf("FAIL {\"op\":\"%s\",\"p\":%u,\"a\":%u,\"b\":%u,\"got\":%u,\"exp\":%u}\n", op, p, a, b, got, exp);
}
static void stat(const char* op, real_u32 p, unsigned long long n) { printf("STAT {\"op\":\"%s\",\"p\":%u,\"n\":%llu}\n", op, p, n); }

template <typename F>
struct Run {
    real_u32 p, R, Rinv;
    Run() { p = val(F::p_value); R = 65536u % p; Rinv = powmod(R, p - 2, p); }

    /* one evaluation of a named op; returns true if ok */
    bool one(const char* op, real_u32 a, real_u32 b, bool report) {
        F x, y, z;
        setv(x.val, a); setv(y.val, b);
        real_u32 got = 0, exp = 0;
        if (!strcmp(op, "add")) { z.add(x, y); got = val(z.val); exp = (a + b) % p; }
        else if (!strcmp(op, "add_alias")) { x.add(x, y); got = val(x.val); exp = (a + b) % p; }
        else if (!strcmp(op, "subtract")) { z.subtract(x, y); got = val(z.val); exp = (a + p - b) % p; }
        else if (!strcmp(op, "subtract_alias")) { x.subtract(x, y); got = val(x.val); exp = (a + p - b) % p; }
        else if (!strcmp(op, "multiply")) { z.multiply(x, y); got = val(z.val); exp = (real_u32) ((real_u64) a * b % p * Rinv % p); }
        else if (!strcmp(op, "multiply_alias")) { x.multiply(x, y); got = val(x.val); exp = (real_u32) ((real_u64) a * b % p * Rinv % p); }
        else if (!strcmp(op, "square")) { z.square(x); got = val(z.val); exp = (real_u32) ((real_u64) a * a % p * Rinv % p); }
        else if (!strcmp(op, "multiply2")) { z.multiply2(x); got = val(z.val); exp = (2 * a) % p; }
        else if (!strcmp(op, "negate")) { z.negate(x); got = val(z.val); exp = (p - a) % p; }
        else if (!strcmp(op, "inverse")) {
            fp_inverse(z, x); got = val(z.val);
            if (a == 0) exp = 0;
            else { real_u32 xi = powmod((real_u32) ((real_u64) a * Rinv % p), p - 2, p); exp = (real_u32) ((real_u64) xi * R % p); }
        }
        else if (!strcmp(op, "legendre")) {
            int l = x.legendre();
            real_u32 e = powmod((real_u32) ((real_u64) a * Rinv % p), (p - 1) / 2, p);
            got = (real_u32) (l + 1); exp = (e == 0) ? 1 : (e == 1 ? 2 : 0);
        }
        else if (!strcmp(op, "set_get") || !strcmp(op, "set")) {
            BigInt<16> i, o; setv(i, a);
            z.set(i); z.get(o); got = val(o); exp = a % p;
            if (val(z.val) != (real_u32) ((real_u64) a * R % p)) { if (report) fail("set", p, a, b, val(z.val), (real_u32) ((real_u64) a * R % p)); return false; }
        }
        else if (!strcmp(op, "exponentiate")) {
            BigInt<16> e; setv(e, b);
            exponentiate(z, x, e); got = val(z.val);
            exp = (real_u32) ((real_u64) powmod((real_u32) ((real_u64) a * Rinv % p), b, p) * R % p);
        }
        else if (!strcmp(op, "montgomery_reduce")) {
            /* a = low 16 bits, b = high 16 bits of T */
            BigInt<32> t; setv32(t, a | (b << 16));
            z.montgomery_reduce(t); got = val(z.val);
            real_u64 T = (real_u64) a | ((real_u64) b << 16);
            exp = (real_u32) (T % p * Rinv % p);
        }
        else { fprintf(stderr, "unknown op %s\n", op); exit(2); }
        if (got != exp || got >= p) { if (report) fail(op, p, a, b, got, exp); return false; }
        return true;
    }

    void sweep(bool thorough, int part, int nparts) {
        static const char* binops[] = {"add", "subtract", "multiply", "add_alias", "subtract_alias", "multiply_alias"};
        for (const char* op : binops) {
            unsigned long long n = 0;
            for (real_u32 a = part; a < p; a += nparts)
                for (real_u32 b = 0; b < p; b++) { one(op, a, b, true); n++; }
            stat(op, p, n);
        }
        static const char* unops[] = {"square", "multiply2", "negate", "inverse", "legendre"};
        for (const char* op : unops) {
            unsigned long long n = 0;
            for (real_u32 a = part; a < p; a += nparts) { one(op, a, 0, true); n++; }
            stat(op, p, n);
        }
        {
            unsigned long long n = 0;
            for (real_u32 a = part; a < 65536; a += nparts) { one("set_get", a, 0, true); n++; }
            stat("set_get", p, n);
        }
        {
            real_u32 exps[] = {0, 1, 2, 3, p - 1, p - 2, (p - 1) / 2, 65535, 32768, 255, 256, 257, 0x5555, 0xAAAA};
            unsigned long long n = 0;
            for (real_u32 a = part; a < p; a += nparts)
                for (real_u32 e : exps) { one("exponentiate", a, e, true); n++; }
            stat("exponentiate", p, n);
        }
        {
            /* every T < p * 2^16 */
            unsigned long long n = 0;
            real_u32 hi_step = thorough ? 1 : 1;
            for (real_u32 hi = part; hi < p; hi += nparts * hi_step)
                for (real_u32 lo = 0; lo < 65536; lo++) { one("montgomery_reduce", lo, hi, true); n++; }
            stat("montgomery_reduce", p, n);
        }
    }
};

static void bigint_row(real_u32 a, long only_b, unsigned long long& n);

static void bigint_sweep(bool thorough, int part, int nparts) {
    /* raw BigInt<16>: add/subtract with carry/borrow, multiply 16x16->32, square, shifts: all inputs */
    unsigned long long n = 0;
    real_u32 astep = thorough ? 1 : 7;       /* quick: every 7th row of a (all b); thorough: all pairs */
    for (real_u32 a = part * astep; a < 65536; a += nparts * astep) bigint_row(a, -1, n);
    stat("bigint16", 0, n);
}

/* one row of the raw BigInt<16> space: a against every b (only_b < 0) or against one b (replay) */
static void bigint_row(real_u32 a, long only_b, unsigned long long& n) {
    {
        for (real_u32 b = (only_b < 0 ? 0 : (real_u32) only_b); b < (only_b < 0 ? 65536u : (real_u32) only_b + 1); b++) {
            BigInt<16> x, y, z; setv(x, a); setv(y, b);
            bool c = z.add(x, y);
            if (val(z) != ((a + b) & 0xFFFF) || c != ((a + b) >> 16 != 0)) fail("bigint_add", 0, a, b, val(z) | (c << 16), a + b);
            bool bo = z.subtract(x, y);
            if (val(z) != ((a - b) & 0xFFFF) || bo != (a < b)) fail("bigint_subtract", 0, a, b, val(z) | (bo << 16), (a - b) & 0x1FFFF);
            BigInt<32> m; m.multiply(x, y);
            if (val32(m) != a * b) fail("bigint_multiply", 0, a, b, val32(m), a * b);
            n += 3;
        }
        BigInt<16> x, z; setv(x, a);
        BigInt<32> s; s.square(x);
        if (val32(s) != a * a) fail("bigint_square", 0, a, 0, val32(s), a * a);
        uint8_t o = z.shift_left_in_word<1>(x);
        if (val(z) != ((a << 1) & 0xFFFF) || o != (a >> 15)) fail("bigint_shl1", 0, a, 0, val(z), (a << 1) & 0xFFFF);
        o = z.shift_right_in_word<1>(x);
        if (val(z) != (a >> 1) || o != ((a & 1) << 7)) fail("bigint_shr1", 0, a, 0, val(z), a >> 1);
        for (unsigned amt = 0; amt < 16; amt++) {
            z.shift_left(x, amt);
            if (val(z) != ((a << amt) & 0xFFFF)) fail("bigint_shift_left", 0, a, amt, val(z), (a << amt) & 0xFFFF);
            z.shift_right(x, amt);
            if (val(z) != (a >> amt)) fail("bigint_shift_right", 0, a, amt, val(z), a >> amt);
        }
        n += 35;
    }
}

/* ---------------------------------------------------------------------------------------------------------------------------
 * w-NAF recoding and the table-based multiplication loop (include/bls12_381/wnaf.hpp, unchanged) at small scale, ALL scalars:
 * WnafScalar<bits, window>::from_bigint for every scalar of 16 bits (2 words) and 24 bits (3 words: a carry can ripple through
 * a middle word) and every window 2..5; the digits must recombine to the scalar exactly, be zero or odd with |d| < 2^window,
 * stay inside the table (index |d| >> 1 < 2^(window-1)) and the buffer (wnaf_size <= bits + 1); wnaf_multiply over a toy group
 * (the integers mod 2^61-1 written additively, with the interface the template expects) must equal scalar * base. */
struct ZGroup {
    real_u64 v;
    static const ZGroup zero;
    static constexpr real_u64 M = (1ull << 61) - 1;
    void copy(const ZGroup& a) { v = a.v; }
    void set(const ZGroup& a) { v = a.v; }
    void add(const ZGroup& a, const ZGroup& b) { v = (a.v + b.v) % M; }
    void multiply2(const ZGroup& a) { v = (2 * a.v) % M; }
    void negate(const ZGroup& a) { v = (M - a.v) % M; }
};
const ZGroup ZGroup::zero = {0};

template <int bits, unsigned int window>
static unsigned long long wnaf_all(int part, int nparts, const char* only_k) {
    using namespace embedded_pairing::bls12_381;
    unsigned long long n = 0;
    real_u64 lo = 0, hi = 1ull << bits;
    if (only_k) { lo = strtoull(only_k, 0, 10); hi = lo + 1; part = 0; nparts = 1; }
    char name[40];
    snprintf(name, sizeof(name), "wnaf_%d_%u", bits, window);
    for (real_u64 k = lo + part; k < hi; k += nparts) {
        BigInt<bits> b;
        for (int i = 0; i < bits / 8; i++) b.bytes[i] = (k >> (8 * i)) & 0xFF;
        WnafScalar<bits, window> s;
        memset(&s, 0x55, sizeof(s));
        s.from_bigint(b);
        bool ok = s.wnaf_size >= 0 && s.wnaf_size <= bits + 1;
        long long acc = 0;
        int last_nonzero = -100;
        for (int i = 0; ok && i < s.wnaf_size; i++) {
            int d = s.wnaf[i];
            if (d != 0) {
                if ((d & 1) == 0 || d >= (1 << window) || d <= -(1 << window)) ok = false;
                if (((d < 0 ? -d : d) >> 1) >= (1 << (window - 1))) ok = false;        /* table index */
                /* (the spacing of the non-zero digits - "non-adjacent form" - is a property of one recoding algorithm, not of the
                 *  specification: any digit string with odd digits inside the table that sums to the scalar and fits the buffer is right) */
                last_nonzero = i;
            }
            acc += (long long) d * (1ll << i);
        }
        if (ok && (real_u64) acc != k) ok = false;
        if (!ok) fail(name, 0, (real_u32) k, (real_u32) (k >> 32), (real_u32) acc, (real_u32) k);
        /* the multiplication loop on the toy group */
        ZGroup base = {0x123456789ABCDull % ZGroup::M}, res;
        wnaf_multiply<ZGroup, ZGroup, bits, window>(res, base, b);
        real_u64 want = (real_u64) ((unsigned __int128) k * base.v % ZGroup::M);
        if (res.v != want) fail(name, 1, (real_u32) k, (real_u32) (k >> 32), (real_u32) res.v, (real_u32) want);
        n++;
    }
    if (!only_k) stat(name, 0, n);
    return n;
}

static void wnaf_sweep(bool thorough, int part, int nparts, const char* only_op, const char* only_k) {
#define W(B, WIN) if (!only_op || !strcmp(only_op, "wnaf_" #B "_" #WIN)) wnaf_all<B, WIN>(part, nparts, only_k);
    W(16, 2) W(16, 3) W(16, 4) W(16, 5)
    if (thorough || only_op) { W(24, 2) W(24, 3) W(24, 4) W(24, 5) }
    else { W(24, 4) }
#undef W
}

int main(int argc, char** argv) {
    if (argc >= 6 && !strcmp(argv[1], "one")) {
        real_u32 p = atoi(argv[3]), a = atoi(argv[4]), b = atoi(argv[5]);
        bool ok = true;
        if (p == 6661u) ok = Run<FA>().one(argv[2], a, b, true);
        else if (p == 8191u) ok = Run<FB>().one(argv[2], a, b, true);
        else if (p == 29683u) ok = Run<FC>().one(argv[2], a, b, true);
        else if (p == 32749u) ok = Run<FD>().one(argv[2], a, b, true);
        else if (p <= 1 && !strncmp(argv[2], "wnaf_", 5)) {
            char kbuf[32]; snprintf(kbuf, sizeof(kbuf), "%llu", (unsigned long long) a | ((unsigned long long) b << 32));
            wnaf_sweep(true, 0, 1, argv[2], kbuf);
            ok = nfail_total == 0;
        }
        else if (p == 0) {
            /* raw BigInt<16> case: re-run the row of a (for the binary operations against the recorded b only) */
            unsigned long long n = 0;
            bool binary = !strcmp(argv[2], "bigint_add") || !strcmp(argv[2], "bigint_subtract") || !strcmp(argv[2], "bigint_multiply");
            bigint_row(a, binary ? (long) b : 0, n);
            ok = nfail_total == 0;
        }
        return ok ? 0 : 1;
    }
    bool thorough = argc >= 2 && (!strcmp(argv[1], "thorough") || !strcmp(argv[1], "wnaf-thorough"));
    int part = argc >= 3 ? atoi(argv[2]) : 0, nparts = argc >= 4 ? atoi(argv[3]) : 1;
    if (argc >= 2 && !strncmp(argv[1], "wnaf", 4)) {          /* C06's share of engine S */
        wnaf_sweep(thorough, part, nparts, nullptr, nullptr);
        return nfail_total ? 1 : 0;
    }
    Run<FA>().sweep(thorough, part, nparts);
    Run<FC>().sweep(thorough, part, nparts);
    if (thorough) {
        Run<FB>().sweep(thorough, part, nparts);
        Run<FD>().sweep(thorough, part, nparts);
    }
    bigint_sweep(thorough, part, nparts);
    return nfail_total ? 1 : 0;
}
