/*
 * C03 / engine E: the CPU's answer to CPUID is an environment answer, and the run-time selection of the BMI2/ADX back end depends on it.
 * Every combination of the two feature bits (leaf 7, sub-leaf 0, EBX bits 8 and 19) is presented to the UNMODIFIED dispatch code:
 * CPUID faulting (arch_prctl ARCH_SET_CPUID) makes each CPUID instruction trap, the handler executes the real instruction and overrides
 * the two bits; one child process per profile loads the library (its load-time initialisers run under the profile) and reports which
 * routine each dispatch pointer selected.  Oracle (safety only): a routine that uses MULX/ADCX/ADOX may be selected only when the CPU
 * reports BMI2 AND ADX - otherwise the first field multiplication dies with SIGILL instead of computing what the other back ends compute.
 *
 * usage: cpuid_env <libjedi.so> <mangled pointer symbol>...      prints one line per profile:
 *   PROFILE bmi2=<0|1> adx=<0|1> probe=<-1|0|1> <symbol>=<bmi2_adx|baseline|other|missing> ...     and UNAVAILABLE if CPUID faulting cannot be enabled
 */
#define _GNU_SOURCE 1
#include <cpuid.h>
#include <dlfcn.h>
#include <signal.h>
#include <stdint.h>
#include <stdio.h>
#include <stdlib.h>
#include <string.h>
#include <sys/syscall.h>
#include <sys/wait.h>
#include <ucontext.h>
#include <unistd.h>

#ifndef ARCH_SET_CPUID
#define ARCH_GET_CPUID 0x1011
#define ARCH_SET_CPUID 0x1012
#endif

static volatile int g_bmi2 = 0, g_adx = 0;
static volatile unsigned long g_trapped = 0;

static void on_segv(int, siginfo_t*, void* vctx) {
    ucontext_t* uc = (ucontext_t*) vctx;
    const uint8_t* ip = (const uint8_t*) uc->uc_mcontext.gregs[REG_RIP];
    if (ip[0] != 0x0F || ip[1] != 0xA2) {
        static const char msg[] = "cpuid_env: SIGSEGV that is not a CPUID trap\n";
        if (write(2, msg, sizeof(msg) - 1) < 0) {}
        _exit(98);
    }
    unsigned leaf = (unsigned) uc->uc_mcontext.gregs[REG_RAX], sub = (unsigned) uc->uc_mcontext.gregs[REG_RCX];
    unsigned a, b, c, d;
    syscall(SYS_arch_prctl, ARCH_SET_CPUID, 1);
    __cpuid_count(leaf, sub, a, b, c, d);
    syscall(SYS_arch_prctl, ARCH_SET_CPUID, 0);
    if (leaf == 7 && sub == 0) {
        b &= ~((1u << 8) | (1u << 19));
        if (g_bmi2) b |= 1u << 8;
        if (g_adx) b |= 1u << 19;
    }
    uc->uc_mcontext.gregs[REG_RAX] = a;
    uc->uc_mcontext.gregs[REG_RBX] = b;
    uc->uc_mcontext.gregs[REG_RCX] = c;
    uc->uc_mcontext.gregs[REG_RDX] = d;
    uc->uc_mcontext.gregs[REG_RIP] += 2;
    g_trapped++;
}

static const char* ROUTINES[3][3] = {
    {"montgomery_reduce", "embedded_pairing_core_arch_x86_64_bmi2_adx_fpbase_384_montgomery_reduce", "embedded_pairing_core_arch_x86_64_fpbase_384_montgomery_reduce"},
    {"multiply", "embedded_pairing_core_arch_x86_64_bmi2_adx_bigint_768_multiply", "embedded_pairing_core_arch_x86_64_bigint_768_multiply"},
    {"square", "embedded_pairing_core_arch_x86_64_bmi2_adx_bigint_768_square", "embedded_pairing_core_arch_x86_64_bigint_768_square"},
};

static int child(const char* lib, int nsyms, char** syms, int bmi2, int adx) {
    g_bmi2 = bmi2; g_adx = adx;
    struct sigaction sa;
    memset(&sa, 0, sizeof(sa));
    sa.sa_sigaction = on_segv;
    sa.sa_flags = SA_SIGINFO | SA_NODEFER;
    sigaction(SIGSEGV, &sa, NULL);
    if (syscall(SYS_arch_prctl, ARCH_SET_CPUID, 0) != 0) { printf("UNAVAILABLE\n"); return 0; }
    void* h = dlopen(lib, RTLD_NOW | RTLD_LOCAL);
    if (!h) { syscall(SYS_arch_prctl, ARCH_SET_CPUID, 1); printf("UNAVAILABLE dlopen: %s\n", dlerror()); return 0; }
    int probe = -1;
    bool (*pf)(void) = (bool (*)(void)) dlsym(h, "embedded_pairing_core_arch_x86_64_cpu_supports_bmi2_adx");
    if (pf) probe = pf() ? 1 : 0;
    char line[2048];
    int n = snprintf(line, sizeof(line), "PROFILE bmi2=%d adx=%d probe=%d", bmi2, adx, probe);
    for (int i = 0; i < nsyms; i++) {
        void** pp = (void**) dlsym(h, syms[i]);
        const char* verdict = "missing";
        if (pp) {
            verdict = "other";
            for (int r = 0; r < 3; r++) {
                if (!strstr(syms[i], ROUTINES[r][0])) continue;
                void* fast = dlsym(h, ROUTINES[r][1]);
                void* base = dlsym(h, ROUTINES[r][2]);
                if (fast && *pp == fast) verdict = "bmi2_adx";
                else if (base && *pp == base) verdict = "baseline";
            }
        }
        n += snprintf(line + n, sizeof(line) - n, " %s=%s", syms[i], verdict);
    }
    syscall(SYS_arch_prctl, ARCH_SET_CPUID, 1);
    printf("%s trapped=%lu\n", line, (unsigned long) g_trapped);
    return 0;
}

int main(int argc, char** argv) {
    if (argc < 2) return 2;
    for (int p = 0; p < 4; p++) {
        fflush(stdout);
        pid_t pid = fork();
        if (pid == 0) { int rc = child(argv[1], argc - 2, argv + 2, p & 1, (p >> 1) & 1); fflush(stdout); _exit(rc); }
        int st = 0;
        waitpid(pid, &st, 0);
        if (!WIFEXITED(st) || WEXITSTATUS(st) != 0) printf("PROFILE bmi2=%d adx=%d CHILD-FAILED status=%d\n", p & 1, (p >> 1) & 1, st);
    }
    return 0;
}
