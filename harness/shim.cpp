/*
 * vk_* shim: exposes the public C++ members of jedi-pairing that the C API does not reach, with plain
 * pointer arguments (native in-memory layout of the library's PODs) so that an explorer can drive them
 * with every aliasing pattern.  Only names declared in the public headers under include/ are used.
 * Compiled once per build configuration with exactly the library's flags.
 */
#pragma clang diagnostic ignored "-Winvalid-offsetof"
#include <stddef.h>
#include <stdint.h>
#include <string.h>

#include "core/bigint.hpp"
#include "core/fp.hpp"
#include "core/fp_utils.hpp"
#include "bls12_381/fq.hpp"
#include "bls12_381/fr.hpp"
#include "bls12_381/fq2.hpp"
#include "bls12_381/fq6.hpp"
#include "bls12_381/fq12.hpp"
#include "bls12_381/curve.hpp"
#include "bls12_381/wnaf.hpp"
#include "bls12_381/decomposition.hpp"
#include "bls12_381/pairing.hpp"
#include "wkdibe/api.hpp"
#include "lqibe/api.hpp"

using namespace embedded_pairing;
using namespace embedded_pairing::core;
using namespace embedded_pairing::bls12_381;

typedef void (*rng_t)(void*, size_t);

#define EX extern "C" __attribute__((visibility("default")))
#define C(T, p) (*reinterpret_cast<const T*>(p))
#define M(T, p) (*reinterpret_cast<T*>(p))

/* ------------------------------------------------------------------ layout facts */
EX size_t vk_sizeof(const char* n) {
#define S(name, T) if (!strcmp(n, name)) return sizeof(T);
    S("bigint64", BigInt<64>) S("bigint128", BigInt<128>) S("bigint192", BigInt<192>) S("bigint256", BigInt<256>)
    S("bigint384", BigInt<384>) S("bigint512", BigInt<512>) S("bigint768", BigInt<768>)
    S("word", BigInt<384>::word_t) S("dword", BigInt<384>::dword_t)
    S("fq", Fq) S("fr", Fr) S("fq2", Fq2) S("fq6", Fq6) S("fq12", Fq12)
    S("g1affine", G1Affine) S("g2affine", G2Affine) S("g1", G1) S("g2", G2)
    S("g2prepared", G2Prepared) S("affinepair", AffinePair) S("preparedpair", PreparedPair)
    S("powersofx", PowersOfX) S("millertriple", MillerTriple)
    S("wk_attribute", wkdibe::Attribute) S("wk_attributelist", wkdibe::AttributeList) S("wk_params", wkdibe::Params)
    S("wk_ciphertext", wkdibe::Ciphertext) S("wk_signature", wkdibe::Signature) S("wk_freeslot", wkdibe::FreeSlot)
    S("wk_secretkey", wkdibe::SecretKey) S("wk_masterkey", wkdibe::MasterKey) S("wk_precomputed", wkdibe::Precomputed)
    S("lq_idhash", lqibe::IDHash) S("lq_params", lqibe::Params) S("lq_id", lqibe::ID) S("lq_masterkey", lqibe::MasterKey)
    S("lq_secretkey", lqibe::SecretKey) S("lq_ciphertext", lqibe::Ciphertext)
#undef S
    return 0;
}


/* member offsets of the scheme structs (and of the C mirror structs: see C19) */
EX long vk_offsetof(const char* n) {
#define O(name, T, m) if (!strcmp(n, name)) return (long) offsetof(T, m);
    O("wk_attribute.id", wkdibe::Attribute, id) O("wk_attribute.idx", wkdibe::Attribute, idx) O("wk_attribute.omitFromKeys", wkdibe::Attribute, omitFromKeys)
    O("wk_attributelist.attrs", wkdibe::AttributeList, attrs) O("wk_attributelist.length", wkdibe::AttributeList, length)
    O("wk_attributelist.omitAllFromKeysUnlessPresent", wkdibe::AttributeList, omitAllFromKeysUnlessPresent)
    O("wk_params.g", wkdibe::Params, g) O("wk_params.g1", wkdibe::Params, g1) O("wk_params.g2", wkdibe::Params, g2) O("wk_params.g3", wkdibe::Params, g3)
    O("wk_params.pairing", wkdibe::Params, pairing) O("wk_params.hsig", wkdibe::Params, hsig) O("wk_params.signatures", wkdibe::Params, signatures)
    O("wk_params.h", wkdibe::Params, h) O("wk_params.l", wkdibe::Params, l)
    O("wk_ciphertext.a", wkdibe::Ciphertext, a) O("wk_ciphertext.b", wkdibe::Ciphertext, b) O("wk_ciphertext.c", wkdibe::Ciphertext, c)
    O("wk_signature.a0", wkdibe::Signature, a0) O("wk_signature.a1", wkdibe::Signature, a1)
    O("wk_freeslot.hexp", wkdibe::FreeSlot, hexp) O("wk_freeslot.idx", wkdibe::FreeSlot, idx)
    O("wk_secretkey.a0", wkdibe::SecretKey, a0) O("wk_secretkey.a1", wkdibe::SecretKey, a1) O("wk_secretkey.l", wkdibe::SecretKey, l)
    O("wk_secretkey.signatures", wkdibe::SecretKey, signatures) O("wk_secretkey.bsig", wkdibe::SecretKey, bsig) O("wk_secretkey.b", wkdibe::SecretKey, b)
    O("wk_masterkey.g2alpha", wkdibe::MasterKey, g2alpha) O("wk_precomputed.prodexp", wkdibe::Precomputed, prodexp)
    O("lq_params.p", lqibe::Params, p) O("lq_params.sp", lqibe::Params, sp) O("lq_id.q", lqibe::ID, q) O("lq_masterkey.s", lqibe::MasterKey, s)
    O("lq_secretkey.sq", lqibe::SecretKey, sq) O("lq_ciphertext.rp", lqibe::Ciphertext, rp) O("lq_idhash.hash", lqibe::IDHash, hash)
    O("g1affine.x", G1Affine, x) O("g1affine.y", G1Affine, y) O("g1affine.infinity", G1Affine, infinity)
    O("g2affine.x", G2Affine, x) O("g2affine.y", G2Affine, y) O("g2affine.infinity", G2Affine, infinity)
    O("g1.x", G1, x) O("g1.y", G1, y) O("g1.z", G1, z) O("g2.x", G2, x) O("g2.y", G2, y) O("g2.z", G2, z)
    O("fq2.c0", Fq2, c0) O("fq2.c1", Fq2, c1) O("fq6.c0", Fq6, c0) O("fq6.c1", Fq6, c1) O("fq6.c2", Fq6, c2) O("fq12.c0", Fq12, c0) O("fq12.c1", Fq12, c1)
    O("g2prepared.coeffs", G2Prepared, coeffs) O("g2prepared.infinity", G2Prepared, infinity)
    O("affinepair.g1", AffinePair, g1) O("affinepair.g2", AffinePair, g2) O("preparedpair.g1", PreparedPair, g1) O("preparedpair.g2", PreparedPair, g2)
    O("millertriple.a", MillerTriple, a) O("millertriple.b", MillerTriple, b) O("millertriple.c", MillerTriple, c)
#undef O
    return -1;
}

/* ------------------------------------------------------------------ C20 write-protection monitor: fault classifier
 * Installed BEFORE the library's writable segments are made read-only.  A SIGSEGV whose faulting address lies inside a
 * protected range is a store to library-global state: report it and exit with status 77.  Any other fault is not the
 * monitor's business: restore the default action and return, so the faulting instruction re-executes and the process dies
 * the ordinary way. */
#include <signal.h>
#include <unistd.h>
static uintptr_t vk_wp_lo[16], vk_wp_hi[16];
static int vk_wp_n = 0;
static void vk_wp_handler(int sig, siginfo_t* si, void*) {
    uintptr_t a = (uintptr_t) si->si_addr;
    for (int i = 0; i < vk_wp_n; i++) {
        if (a >= vk_wp_lo[i] && a < vk_wp_hi[i]) {
            static const char msg[] = "\nWRITE-PROTECT-FAULT: store to write-protected library memory\n";
            ssize_t r = write(2, msg, sizeof(msg) - 1);
            (void) r;
            _exit(77);
        }
    }
    signal(sig, SIG_DFL);
}
EX int vk_wp_install(const uint64_t* lo, const uint64_t* hi, int n) {
    if (n > 16) return -1;
    for (int i = 0; i < n; i++) { vk_wp_lo[i] = (uintptr_t) lo[i]; vk_wp_hi[i] = (uintptr_t) hi[i]; }
    vk_wp_n = n;
    struct sigaction sa;
    memset(&sa, 0, sizeof(sa));
    sa.sa_sigaction = vk_wp_handler;
    sa.sa_flags = SA_SIGINFO | SA_NODEFER;
    sigemptyset(&sa.sa_mask);
    return sigaction(SIGSEGV, &sa, nullptr);
}
EX int vk_word_bits(void) { return 8 * (int) sizeof(BigInt<384>::word_t); }
EX int vk_asm_enabled(void) {
#ifdef DISABLE_ASM
    return 0;
#else
    return 1;
#endif
}

/* library constants, copied out */
EX void vk_const(const char* n, void* out) {
#define K(name, expr) if (!strcmp(n, name)) { memcpy(out, &(expr), sizeof(expr)); return; }
    K("fq_modulus", Fq::p_value) K("fq_R", Fq::r_value) K("fq_R2", Fq::r2_value) K("fq_inv", Fq::inv_value)
    K("fr_modulus", Fr::p_value) K("fr_R", Fr::r_value) K("fr_R2", Fr::r2_value) K("fr_inv", Fr::inv_value)
    K("fq_zero", Fq::zero) K("fq_one", Fq::one) K("fq_negative_one", Fq::negative_one)
    K("fr_zero", Fr::zero) K("fr_one", Fr::one)
    K("fq2_zero", Fq2::zero) K("fq2_one", Fq2::one) K("fq2_negative_one", Fq2::negative_one)
    K("fq6_zero", Fq6::zero) K("fq6_one", Fq6::one) K("fq12_zero", Fq12::zero) K("fq12_one", Fq12::one)
    K("g1affine_zero", G1Affine::zero) K("g1affine_generator", G1Affine::generator) K("g1_cofactor", G1Affine::cofactor)
    K("g2affine_zero", G2Affine::zero) K("g2affine_generator", G2Affine::generator) K("g2_cofactor", G2Affine::cofactor)
    K("g1_zero", G1::zero) K("g1_one", G1::one) K("g2_zero", G2::zero) K("g2_one", G2::one)
    K("g1_b", g1_b_coeff_var) K("g2_b", g2_b_coeff_var)
    K("bls_x", bls_x) K("generator_pairing", generator_pairing)
    K("wk_group_order", wkdibe::group_order) K("lq_group_order", lqibe::group_order)
#undef K
    memset(out, 0xEE, 1);
}
EX unsigned vk_num_coeffs(void) { return G2Prepared::num_coeffs; }

#ifndef DISABLE_ASM
#if defined(__x86_64__)
/* The dispatch pointers and the two sets of routines are reached through weak references to their linker names, not through the
 * library's declarations: a library that organises its run-time dispatch differently (a const table, no pointers at all) still links,
 * and the harness then reports that the back end cannot be switched instead of failing to build. */
extern "C" {
    typedef void (*vk_fn_t)(void);
    extern vk_fn_t vk_rt_reduce __asm__("_ZN16embedded_pairing4core36runtime_fpbase_384_montgomery_reduceE") __attribute__((weak));
    extern vk_fn_t vk_rt_multiply __asm__("_ZN16embedded_pairing4core27runtime_bigint_768_multiplyE") __attribute__((weak));
    extern vk_fn_t vk_rt_square __asm__("_ZN16embedded_pairing4core25runtime_bigint_768_squareE") __attribute__((weak));
    void vk_base_reduce(void) __asm__("embedded_pairing_core_arch_x86_64_fpbase_384_montgomery_reduce") __attribute__((weak));
    void vk_fast_reduce(void) __asm__("embedded_pairing_core_arch_x86_64_bmi2_adx_fpbase_384_montgomery_reduce") __attribute__((weak));
    void vk_base_multiply(void) __asm__("embedded_pairing_core_arch_x86_64_bigint_768_multiply") __attribute__((weak));
    void vk_fast_multiply(void) __asm__("embedded_pairing_core_arch_x86_64_bmi2_adx_bigint_768_multiply") __attribute__((weak));
    void vk_base_square(void) __asm__("embedded_pairing_core_arch_x86_64_bigint_768_square") __attribute__((weak));
    void vk_fast_square(void) __asm__("embedded_pairing_core_arch_x86_64_bmi2_adx_bigint_768_square") __attribute__((weak));
    bool vk_probe(void) __asm__("embedded_pairing_core_arch_x86_64_cpu_supports_bmi2_adx") __attribute__((weak));
}
static bool vk_switchable(void) {
    return &vk_rt_reduce && &vk_rt_multiply && &vk_rt_square && vk_base_reduce && vk_fast_reduce && vk_base_multiply && vk_fast_multiply && vk_base_square && vk_fast_square;
}
/* 0: baseline routines, 1: BMI2/ADX routines, -1: query only. Returns 1 if the BMI2/ADX routines are selected, 0 if the baseline ones are,
 * -2 for a mixture, -3 if this library's dispatch cannot be inspected / switched from outside. */
EX int vk_dispatch(int mode) {
    if (!vk_switchable()) return -3;
    if (mode == 0) { vk_rt_reduce = vk_base_reduce; vk_rt_multiply = vk_base_multiply; vk_rt_square = vk_base_square; }
    else if (mode == 1) { vk_rt_reduce = vk_fast_reduce; vk_rt_multiply = vk_fast_multiply; vk_rt_square = vk_fast_square; }
    int n = (vk_rt_reduce == vk_fast_reduce) + (vk_rt_multiply == vk_fast_multiply) + (vk_rt_square == vk_fast_square);
    return n == 3 ? 1 : (n == 0 ? 0 : -2);
}
EX int vk_cpu_bmi2_adx(void) { return vk_probe ? (vk_probe() ? 1 : 0) : -3; }
#endif
#else
EX int vk_dispatch(int) { return -1; }
EX int vk_cpu_bmi2_adx(void) { return -1; }
#endif

/* ------------------------------------------------------------------ BigInt<bits> */
#define BIGINT_OPS(N) \
    EX int vk_bi##N##_add(void* o, const void* a, const void* b) { return M(BigInt<N>, o).add(C(BigInt<N>, a), C(BigInt<N>, b)) ? 1 : 0; } \
    EX int vk_bi##N##_subtract(void* o, const void* a, const void* b) { return M(BigInt<N>, o).subtract(C(BigInt<N>, a), C(BigInt<N>, b)) ? 1 : 0; } \
    EX uint64_t vk_bi##N##_shl1(void* o, const void* a) { return M(BigInt<N>, o).shift_left_in_word<1>(C(BigInt<N>, a)); } \
    EX uint64_t vk_bi##N##_shr1(void* o, const void* a) { return M(BigInt<N>, o).shift_right_in_word<1>(C(BigInt<N>, a)); } \
    EX uint64_t vk_bi##N##_shl3(void* o, const void* a) { return M(BigInt<N>, o).shift_left_in_word<3>(C(BigInt<N>, a)); } \
    EX uint64_t vk_bi##N##_shr3(void* o, const void* a) { return M(BigInt<N>, o).shift_right_in_word<3>(C(BigInt<N>, a)); } \
    EX uint64_t vk_bi##N##_shift_left(void* o, const void* a, unsigned amt) { return M(BigInt<N>, o).shift_left(C(BigInt<N>, a), amt); } \
    EX uint64_t vk_bi##N##_shift_right(void* o, const void* a, unsigned amt) { return M(BigInt<N>, o).shift_right(C(BigInt<N>, a), amt); } \
    EX int vk_bi##N##_compare(const void* a, const void* b) { return BigInt<N>::compare(C(BigInt<N>, a), C(BigInt<N>, b)); } \
    EX int vk_bi##N##_equal(const void* a, const void* b) { return BigInt<N>::equal(C(BigInt<N>, a), C(BigInt<N>, b)) ? 1 : 0; } \
    EX int vk_bi##N##_is_zero(const void* a) { return C(BigInt<N>, a).is_zero() ? 1 : 0; } \
    EX int vk_bi##N##_is_one(const void* a) { return C(BigInt<N>, a).is_one() ? 1 : 0; } \
    EX int vk_bi##N##_is_even(const void* a) { return C(BigInt<N>, a).is_even() ? 1 : 0; } \
    EX int vk_bi##N##_is_odd(const void* a) { return C(BigInt<N>, a).is_odd() ? 1 : 0; } \
    EX int vk_bi##N##_bit(const void* a, int pos) { return C(BigInt<N>, a).bit(pos) ? 1 : 0; } \
    EX void vk_bi##N##_multiply_lower(void* o, const void* a, const void* b) { M(BigInt<N>, o).multiply_lower(C(BigInt<N>, a), C(BigInt<N>, b)); } \
    EX void vk_bi##N##_write_be(void* buf, const void* a) { C(BigInt<N>, a).write_big_endian((uint8_t*) buf); } \
    EX void vk_bi##N##_read_be(void* o, const void* buf) { M(BigInt<N>, o).read_big_endian((const uint8_t*) buf); } \
    EX void vk_bi##N##_reverse(void* o) { M(BigInt<N>, o).reverse_endianness(); } \
    EX void vk_bi##N##_clear(void* o) { M(BigInt<N>, o).clear(); } \
    EX void vk_bi##N##_random(void* o, rng_t rng) { M(BigInt<N>, o).random(rng); } \
    EX uint64_t vk_bi##N##_divx(void* o, const void* a) { return M(BigInt<N>, o).divide_std_dword<UINT64_C(0xd201000000010000)>(C(BigInt<N>, a)); } \
    EX uint64_t vk_bi##N##_div10(void* o, const void* a) { return M(BigInt<N>, o).divide_word<10>(C(BigInt<N>, a)); }

BIGINT_OPS(64)
BIGINT_OPS(128)
BIGINT_OPS(192)
BIGINT_OPS(256)
BIGINT_OPS(384)
BIGINT_OPS(512)
BIGINT_OPS(768)

#define BIGINT_MUL(NO, NA, NB) \
    EX void vk_bi##NO##_multiply_##NA##_##NB(void* o, const void* a, const void* b) { M(BigInt<NO>, o).multiply(C(BigInt<NA>, a), C(BigInt<NB>, b)); }
BIGINT_MUL(768, 384, 384)
BIGINT_MUL(512, 256, 256)
BIGINT_MUL(256, 128, 128)
BIGINT_MUL(128, 64, 64)
BIGINT_MUL(384, 128, 256)
BIGINT_MUL(256, 64, 192)
BIGINT_MUL(192, 64, 128)
#define BIGINT_SQR(NO, NA) \
    EX void vk_bi##NO##_square(void* o, const void* a) { M(BigInt<NO>, o).square(C(BigInt<NA>, a)); }
BIGINT_SQR(768, 384)
BIGINT_SQR(512, 256)
BIGINT_SQR(256, 128)
#define BIGINT_COPY(NO, NA) \
    EX void vk_bi##NO##_copy_##NA(void* o, const void* a) { M(BigInt<NO>, o).copy(C(BigInt<NA>, a)); }
BIGINT_COPY(256, 128) BIGINT_COPY(128, 256) BIGINT_COPY(256, 256) BIGINT_COPY(768, 384) BIGINT_COPY(384, 768) BIGINT_COPY(384, 384)

/* ------------------------------------------------------------------ FpBase<bits> (explicit modulus) */
#define FPBASE_OPS(N) \
    EX void vk_fpb##N##_add(void* o, const void* a, const void* b, const void* p) { M(FpBase<N>, o).add(C(FpBase<N>, a), C(FpBase<N>, b), C(BigInt<N>, p)); } \
    EX void vk_fpb##N##_subtract(void* o, const void* a, const void* b, const void* p) { M(FpBase<N>, o).subtract(C(FpBase<N>, a), C(FpBase<N>, b), C(BigInt<N>, p)); } \
    EX void vk_fpb##N##_multiply2(void* o, const void* a, const void* p) { M(FpBase<N>, o).multiply2(C(FpBase<N>, a), C(BigInt<N>, p)); } \
    EX void vk_fpb##N##_negate(void* o, const void* a, const void* p) { M(FpBase<N>, o).negate(C(FpBase<N>, a), C(BigInt<N>, p)); } \
    EX void vk_fpb##N##_reduce(void* o, const void* a, const void* p) { M(FpBase<N>, o).reduce(C(BigInt<N>, a), C(BigInt<N>, p)); } \
    EX void vk_fpb##N##_montgomery_reduce(void* o, void* a2, const void* p, uint64_t inv) { M(FpBase<N>, o).montgomery_reduce(M(BigInt<2 * N>, a2), C(BigInt<N>, p), (BigInt<N>::word_t) inv); } \
    EX void vk_fpb##N##_multiply(void* o, const void* a, const void* b, const void* p, uint64_t inv) { M(FpBase<N>, o).multiply(C(FpBase<N>, a), C(FpBase<N>, b), C(BigInt<N>, p), (BigInt<N>::word_t) inv); } \
    EX void vk_fpb##N##_square(void* o, const void* a, const void* p, uint64_t inv) { M(FpBase<N>, o).square(C(FpBase<N>, a), C(BigInt<N>, p), (BigInt<N>::word_t) inv); }
FPBASE_OPS(384)
FPBASE_OPS(256)

/* ------------------------------------------------------------------ Fq / Fr */
#define FP_OPS(n, T, N) \
    EX void vk_##n##_set(void* o, const void* i) { M(T, o).set(C(BigInt<N>, i)); } \
    EX void vk_##n##_get(void* i, const void* a) { C(T, a).get(M(BigInt<N>, i)); } \
    EX void vk_##n##_into_montgomery_form(void* o) { M(T, o).into_montgomery_form(); } \
    EX void vk_##n##_add(void* o, const void* a, const void* b) { M(T, o).add(C(T, a), C(T, b)); } \
    EX void vk_##n##_subtract(void* o, const void* a, const void* b) { M(T, o).subtract(C(T, a), C(T, b)); } \
    EX void vk_##n##_multiply2(void* o, const void* a) { M(T, o).multiply2(C(T, a)); } \
    EX void vk_##n##_negate(void* o, const void* a) { M(T, o).negate(C(T, a)); } \
    EX void vk_##n##_multiply(void* o, const void* a, const void* b) { M(T, o).multiply(C(T, a), C(T, b)); } \
    EX void vk_##n##_square(void* o, const void* a) { M(T, o).square(C(T, a)); } \
    EX void vk_##n##_inverse(void* o, const void* a) { fp_inverse(M(T, o), C(T, a)); } \
    EX void vk_##n##_reduce(void* o, const void* a) { M(T, o).reduce(C(BigInt<N>, a)); } \
    EX void vk_##n##_montgomery_reduce(void* o, void* a2) { M(T, o).montgomery_reduce(M(BigInt<2 * N>, a2)); } \
    EX int vk_##n##_legendre(const void* a) { return C(T, a).legendre(); } \
    EX void vk_##n##_square_root(void* o, const void* a) { M(T, o).square_root(C(T, a)); } \
    EX int vk_##n##_equal(const void* a, const void* b) { return T::equal(C(T, a), C(T, b)) ? 1 : 0; } \
    EX int vk_##n##_is_zero(const void* a) { return C(T, a).is_zero() ? 1 : 0; } \
    EX int vk_##n##_is_one(const void* a) { return C(T, a).is_one() ? 1 : 0; } \
    EX void vk_##n##_set_zero(void* o) { M(T, o).set_zero(); } \
    EX void vk_##n##_copy(void* o, const void* a) { M(T, o).copy(C(T, a)); } \
    EX void vk_##n##_random(void* o, rng_t rng) { M(T, o).random(rng); } \
    EX int vk_##n##_hash_reduce(void* o) { return M(T, o).hash_reduce() ? 1 : 0; } \
    EX void vk_##n##_exp64(void* o, const void* a, const void* e) { exponentiate(M(T, o), C(T, a), C(BigInt<64>, e)); } \
    EX void vk_##n##_exp256(void* o, const void* a, const void* e) { exponentiate(M(T, o), C(T, a), C(BigInt<256>, e)); } \
    EX void vk_##n##_exp384(void* o, const void* a, const void* e) { exponentiate(M(T, o), C(T, a), C(BigInt<384>, e)); } \
    EX void vk_##n##_exp768(void* o, const void* a, const void* e) { exponentiate(M(T, o), C(T, a), C(BigInt<768>, e)); } \
    EX void vk_##n##_exp256_restrict(void* o, const void* a, const void* e) { exponentiate_restrict(M(T, o), C(T, a), C(BigInt<256>, e)); }
FP_OPS(fq, Fq, 384)
FP_OPS(fr, Fr, 256)
EX void vk_fq_inverse_member(void* o, const void* a) { M(Fq, o).inverse(C(Fq, a)); }
EX int vk_fq_compare(const void* a, const void* b) { return Fq::compare(C(Fq, a), C(Fq, b)); }
EX void vk_fq_write_be(void* buf, const void* a) { C(Fq, a).write_big_endian((uint8_t*) buf); }
EX void vk_fq_read_be(void* o, const void* buf) { M(Fq, o).read_big_endian((const uint8_t*) buf); }

/* ------------------------------------------------------------------ Fq2 / Fq6 / Fq12 */
#define EXT_OPS(n, T) \
    EX int vk_##n##_is_zero(const void* a) { return C(T, a).is_zero() ? 1 : 0; } \
    EX void vk_##n##_copy(void* o, const void* a) { M(T, o).copy(C(T, a)); } \
    EX void vk_##n##_add(void* o, const void* a, const void* b) { M(T, o).add(C(T, a), C(T, b)); } \
    EX void vk_##n##_subtract(void* o, const void* a, const void* b) { M(T, o).subtract(C(T, a), C(T, b)); } \
    EX void vk_##n##_multiply2(void* o, const void* a) { M(T, o).multiply2(C(T, a)); } \
    EX void vk_##n##_negate(void* o, const void* a) { M(T, o).negate(C(T, a)); } \
    EX void vk_##n##_inverse(void* o, const void* a) { M(T, o).inverse(C(T, a)); } \
    EX void vk_##n##_frobenius_map(void* o, const void* a, unsigned power) { M(T, o).frobenius_map(C(T, a), power); } \
    EX void vk_##n##_multiply(void* o, const void* a, const void* b) { M(T, o).multiply(C(T, a), C(T, b)); } \
    EX void vk_##n##_square(void* o, const void* a) { M(T, o).square(C(T, a)); } \
    EX void vk_##n##_random(void* o, rng_t rng) { M(T, o).random(rng); } \
    EX void vk_##n##_write_be(void* buf, const void* a) { C(T, a).write_big_endian((uint8_t*) buf); } \
    EX void vk_##n##_read_be(void* o, const void* buf) { M(T, o).read_big_endian((const uint8_t*) buf); } \
    EX int vk_##n##_equal(const void* a, const void* b) { return T::equal(C(T, a), C(T, b)) ? 1 : 0; } \
    EX void vk_##n##_exp64(void* o, const void* a, const void* e) { exponentiate(M(T, o), C(T, a), C(BigInt<64>, e)); } \
    EX void vk_##n##_exp256(void* o, const void* a, const void* e) { exponentiate(M(T, o), C(T, a), C(BigInt<256>, e)); } \
    EX void vk_##n##_exp384(void* o, const void* a, const void* e) { exponentiate(M(T, o), C(T, a), C(BigInt<384>, e)); } \
    EX void vk_##n##_exp768(void* o, const void* a, const void* e) { exponentiate(M(T, o), C(T, a), C(BigInt<768>, e)); }
EXT_OPS(fq2, Fq2)
EXT_OPS(fq6, Fq6)
EXT_OPS(fq12, Fq12)
EX void vk_fq2_multiply_by_nonresidue(void* o, const void* a) { M(Fq2, o).multiply_by_nonresidue(C(Fq2, a)); }
EX void vk_fq2_norm(void* o, const void* a) { C(Fq2, a).norm(M(Fq, o)); }
EX int vk_fq2_legendre(const void* a) { return C(Fq2, a).legendre(); }
EX void vk_fq2_square_root(void* o, const void* a) { M(Fq2, o).square_root(C(Fq2, a)); }
EX int vk_fq2_hash_reduce(void* o) { return M(Fq2, o).hash_reduce() ? 1 : 0; }
EX int vk_fq2_compare(const void* a, const void* b) { return Fq2::compare(C(Fq2, a), C(Fq2, b)); }
EX void vk_fq6_multiply_by_nonresidue(void* o, const void* a) { M(Fq6, o).multiply_by_nonresidue(C(Fq6, a)); }
EX void vk_fq6_multiply_by_c1(void* o, const void* a, const void* c1) { M(Fq6, o).multiply_by_c1(C(Fq6, a), C(Fq2, c1)); }
EX void vk_fq6_multiply_by_c01(void* o, const void* a, const void* c0, const void* c1) { M(Fq6, o).multiply_by_c01(C(Fq6, a), C(Fq2, c0), C(Fq2, c1)); }
EX void vk_fq12_multiply_by_c014(void* o, const void* a, const void* c0, const void* c1, const void* c4) { M(Fq12, o).multiply_by_c014(C(Fq12, a), C(Fq2, c0), C(Fq2, c1), C(Fq2, c4)); }
EX void vk_fq12_conjugate(void* o, const void* a) { M(Fq12, o).conjugate(C(Fq12, a)); }
EX void vk_fq12_square_cyclotomic(void* o, const void* a) { M(Fq12, o).square_cyclotomic(C(Fq12, a)); }
EX void vk_fq12_map_to_cyclotomic(void* o, const void* a) { M(Fq12, o).map_to_cyclotomic(C(Fq12, a)); }
EX void vk_fq12_exp_cyc_restrict256(void* o, const void* a, const void* e) { M(Fq12, o).exponentiate_restrict_cyclotomic_nodiv(C(Fq12, a), C(BigInt<256>, e)); }
EX void vk_fq12_exp_gt_nodiv256(void* o, const void* a, const void* e) { M(Fq12, o).exponentiate_gt_nodiv(C(Fq12, a), C(BigInt<256>, e)); }
EX void vk_fq12_exp_gt_nodiv64(void* o, const void* a, const void* e) { M(Fq12, o).exponentiate_gt_nodiv(C(Fq12, a), C(BigInt<64>, e)); }
EX void vk_fq12_exp_gt_div(void* o, const void* a, const void* e) { M(Fq12, o).exponentiate_gt_div(C(Fq12, a), C(BigInt<256>, e)); }
EX void vk_fq12_exp_gt(void* o, const void* a, const void* e) { M(Fq12, o).exponentiate_gt(C(Fq12, a), C(BigInt<256>, e)); }
EX void vk_fq12_exp_gt_powers(void* o, const void* a, const void* px) { M(Fq12, o).exponentiate_gt(C(Fq12, a), C(PowersOfX, px)); }
EX void vk_fq12_random_gt(void* o, void* y, const void* base, rng_t rng) { M(Fq12, o).random_gt(M(BigInt<256>, y), C(Fq12, base), rng); }

/* ------------------------------------------------------------------ decomposition / wnaf */
EX void vk_powersofx_decompose(void* px, const void* y) { M(PowersOfX, px).decompose(C(BigInt<256>, y)); }
EX void vk_powersofx_random(void* px, void* y, rng_t rng) { M(PowersOfX, px).random(M(BigInt<256>, y), rng); }

/* out: int8_t[bits+1] digits; returns wnaf_size. The struct is placed between guard bytes to catch overruns. */
template <int bits, unsigned window>
static int wnaf_recode(int8_t* out, const void* k, int* guard_ok) {
    struct {
        uint8_t pre[64];
        WnafScalar<bits, window> s;
        uint8_t post[64];
    } g;
    memset(g.pre, 0xA5, sizeof(g.pre));
    memset(g.post, 0x5A, sizeof(g.post));
    memset(&g.s, 0x77, sizeof(g.s));
    g.s.wnaf_size = -12345;
    g.s.from_bigint(C(BigInt<bits>, k));
    *guard_ok = 1;
    for (size_t i = 0; i != 64; i++) {
        if (g.pre[i] != 0xA5 || g.post[i] != 0x5A) *guard_ok = 0;
    }
    memcpy(out, g.s.wnaf, bits + 1);
    return g.s.wnaf_size;
}
#define WNAF_RECODE(B, W) EX int vk_wnaf_recode_##B##_##W(void* out, const void* k, int* guard_ok) { return wnaf_recode<B, W>((int8_t*) out, k, guard_ok); }
WNAF_RECODE(64, 2) WNAF_RECODE(64, 3) WNAF_RECODE(64, 4) WNAF_RECODE(64, 5)
WNAF_RECODE(128, 2) WNAF_RECODE(128, 3) WNAF_RECODE(128, 4) WNAF_RECODE(128, 5)
WNAF_RECODE(256, 2) WNAF_RECODE(256, 3) WNAF_RECODE(256, 4) WNAF_RECODE(256, 5)
WNAF_RECODE(512, 2) WNAF_RECODE(512, 3) WNAF_RECODE(512, 4) WNAF_RECODE(512, 5)

/* ------------------------------------------------------------------ curves */
#define AFFINE_OPS(n, A, P, F) \
    EX int vk_##n##_get_point_from_x(void* o, const void* x, int greater, int checked) { return M(A, o).get_point_from_x(C(F, x), greater != 0, checked != 0) ? 1 : 0; } \
    EX int vk_##n##_is_on_curve(const void* a) { return C(A, a).is_on_curve() ? 1 : 0; } \
    EX int vk_##n##_in_subgroup(const void* a) { return C(A, a).is_in_correct_subgroup_assuming_on_curve() ? 1 : 0; } \
    EX void vk_##n##_try_and_increment(void* o, const void* start, int greater) { M(A, o).try_and_increment(C(F, start), greater != 0); } \
    EX void vk_##n##_from_hash(void* o, const void* hash) { M(A, o).from_hash((const uint8_t*) hash); } \
    EX int vk_##n##_equal(const void* a, const void* b) { return A::equal(C(A, a), C(A, b)) ? 1 : 0; } \
    EX int vk_##n##_is_zero(const void* a) { return C(A, a).is_zero() ? 1 : 0; } \
    EX void vk_##n##_negate(void* o, const void* a) { M(A, o).negate(C(A, a)); } \
    EX void vk_##n##_from_projective(void* o, const void* a) { M(A, o).from_projective(C(P, a)); } \
    EX void vk_##n##_copy(void* o, const void* a) { M(A, o).copy(C(A, a)); }
AFFINE_OPS(g1affine, G1Affine, G1, Fq)
AFFINE_OPS(g2affine, G2Affine, G2, Fq2)

#define PROJ_OPS(n, P, A) \
    EX int vk_##n##_equal(const void* a, const void* b) { return P::equal(C(P, a), C(P, b)) ? 1 : 0; } \
    EX int vk_##n##_is_zero(const void* a) { return C(P, a).is_zero() ? 1 : 0; } \
    EX int vk_##n##_is_normalized(const void* a) { return C(P, a).is_normalized() ? 1 : 0; } \
    EX void vk_##n##_multiply2(void* o, const void* a) { M(P, o).multiply2(C(P, a)); } \
    EX void vk_##n##_add(void* o, const void* a, const void* b) { M(P, o).add(C(P, a), C(P, b)); } \
    EX void vk_##n##_add_mixed(void* o, const void* a, const void* b) { M(P, o).add(C(P, a), C(A, b)); } \
    EX void vk_##n##_negate(void* o, const void* a) { M(P, o).negate(C(P, a)); } \
    EX void vk_##n##_from_affine(void* o, const void* a) { M(P, o).from_affine(C(A, a)); } \
    EX void vk_##n##_copy(void* o, const void* a) { M(P, o).copy(C(P, a)); } \
    EX void vk_##n##_random_generator(void* o, rng_t rng) { M(P, o).random_generator(rng); }
PROJ_OPS(g1, G1, G1Affine)
PROJ_OPS(g2, G2, G2Affine)

/* scalar multiplication: base kind 'p' (projective) or 'a' (affine); scalar widths */
#define MUL_GENERIC(n, P, A, B) \
    EX void vk_##n##_doubleadd_p_##B(void* o, const void* base, const void* k) { M(P, o).multiply_doubleadd(C(P, base), C(BigInt<B>, k)); } \
    EX void vk_##n##_doubleadd_a_##B(void* o, const void* base, const void* k) { M(P, o).multiply_doubleadd(C(A, base), C(BigInt<B>, k)); } \
    EX void vk_##n##_doubleadd_restrict_p_##B(void* o, const void* base, const void* k) { M(P, o).multiply_doubleadd_restrict(C(P, base), C(BigInt<B>, k)); } \
    EX void vk_##n##_doubleadd_restrict_a_##B(void* o, const void* base, const void* k) { M(P, o).multiply_doubleadd_restrict(C(A, base), C(BigInt<B>, k)); } \
    EX void vk_##n##_wnaf2_p_##B(void* o, const void* base, const void* k) { M(P, o).multiply_wnaf<P, BigInt<B>, 2>(C(P, base), C(BigInt<B>, k)); } \
    EX void vk_##n##_wnaf3_p_##B(void* o, const void* base, const void* k) { M(P, o).multiply_wnaf<P, BigInt<B>, 3>(C(P, base), C(BigInt<B>, k)); } \
    EX void vk_##n##_wnaf4_p_##B(void* o, const void* base, const void* k) { M(P, o).multiply_wnaf<P, BigInt<B>, 4>(C(P, base), C(BigInt<B>, k)); } \
    EX void vk_##n##_wnaf5_p_##B(void* o, const void* base, const void* k) { M(P, o).multiply_wnaf<P, BigInt<B>, 5>(C(P, base), C(BigInt<B>, k)); } \
    EX void vk_##n##_wnaf2_a_##B(void* o, const void* base, const void* k) { M(P, o).multiply_wnaf<A, BigInt<B>, 2>(C(A, base), C(BigInt<B>, k)); } \
    EX void vk_##n##_wnaf3_a_##B(void* o, const void* base, const void* k) { M(P, o).multiply_wnaf<A, BigInt<B>, 3>(C(A, base), C(BigInt<B>, k)); } \
    EX void vk_##n##_wnaf4_a_##B(void* o, const void* base, const void* k) { M(P, o).multiply_wnaf<A, BigInt<B>, 4>(C(A, base), C(BigInt<B>, k)); } \
    EX void vk_##n##_wnaf5_a_##B(void* o, const void* base, const void* k) { M(P, o).multiply_wnaf<A, BigInt<B>, 5>(C(A, base), C(BigInt<B>, k)); } \
    EX void vk_##n##_generic_multiply_p_##B(void* o, const void* base, const void* k) { M(P, o).Projective<P::BaseFieldType>::multiply(C(P, base), C(BigInt<B>, k)); } \
    EX void vk_##n##_generic_multiply_a_##B(void* o, const void* base, const void* k) { M(P, o).Projective<P::BaseFieldType>::multiply(C(A, base), C(BigInt<B>, k)); } \
    EX void vk_##n##_table4_multiply_##B(void* o, const void* base, const void* k) { \
        WnafTable<P, 4> t; t.fill_table(C(P, base)); \
        bls12_381::wnaf_multiply<P, P, B, 4>(M(P, o), t, C(BigInt<B>, k)); } \
    EX void vk_##n##_wnafscalar4_multiply_##B(void* o, const void* base, const void* k) { \
        WnafScalar<B, 4> s; s.from_bigint(C(BigInt<B>, k)); \
        M(P, o).multiply_wnaf(C(P, base), s); }
MUL_GENERIC(g1, G1, G1Affine, 64)
MUL_GENERIC(g1, G1, G1Affine, 128)
MUL_GENERIC(g1, G1, G1Affine, 256)
MUL_GENERIC(g1, G1, G1Affine, 512)
MUL_GENERIC(g2, G2, G2Affine, 64)
MUL_GENERIC(g2, G2, G2Affine, 128)
MUL_GENERIC(g2, G2, G2Affine, 256)
MUL_GENERIC(g2, G2, G2Affine, 512)

EX void vk_g1_multiply_p_256(void* o, const void* base, const void* k) { M(G1, o).multiply(C(G1, base), C(BigInt<256>, k)); }
EX void vk_g1_multiply_a_256(void* o, const void* base, const void* k) { M(G1, o).multiply(C(G1Affine, base), C(BigInt<256>, k)); }
EX void vk_g1_multiply_p_128(void* o, const void* base, const void* k) { M(G1, o).multiply(C(G1, base), C(BigInt<128>, k)); }
EX void vk_g1_multiply_a_128(void* o, const void* base, const void* k) { M(G1, o).multiply(C(G1Affine, base), C(BigInt<128>, k)); }
EX void vk_g1_endomorphism(void* o, const void* a) { M(G1, o).endomorphism(C(G1, a)); }
EX void vk_g1_multiply_endomorphism(void* o, const void* base, const void* k) { M(G1, o).multiply_endomorphism(C(G1, base), C(BigInt<256>, k)); }
EX void vk_g1_multiply_endomorphism5(void* o, const void* base, const void* c0, int c0n, const void* c1, int c1n) { M(G1, o).multiply_endomorphism(C(G1, base), C(BigInt<256>, c0), c0n != 0, C(BigInt<256>, c1), c1n != 0); }
EX void vk_g2_multiply_p_256(void* o, const void* base, const void* k) { M(G2, o).multiply(C(G2, base), C(BigInt<256>, k)); }
EX void vk_g2_multiply_a_256(void* o, const void* base, const void* k) { M(G2, o).multiply(C(G2Affine, base), C(BigInt<256>, k)); }
EX void vk_g2_multiply_p_512(void* o, const void* base, const void* k) { M(G2, o).multiply(C(G2, base), C(BigInt<512>, k)); }
EX void vk_g2_multiply_a_512(void* o, const void* base, const void* k) { M(G2, o).multiply(C(G2Affine, base), C(BigInt<512>, k)); }
EX void vk_g2_frobenius_map(void* o, const void* a, unsigned power) { M(G2, o).frobenius_map(C(G2, a), power); }
EX void vk_g2_multiply_frobenius(void* o, const void* base, const void* k) { M(G2, o).multiply_frobenius(C(G2, base), C(BigInt<256>, k)); }
EX void vk_g2_multiply_frobenius_powers(void* o, const void* base, const void* px) { M(G2, o).multiply_frobenius(C(G2, base), C(PowersOfX, px)); }

/* ------------------------------------------------------------------ encodings */
#define ENC_OPS(n, A, c) \
    typedef Encoding<A, c> enc_##n##_t; \
    EX void vk_##n##_encode(void* buf, const void* a) { M(enc_##n##_t, buf).encode(C(A, a)); } \
    EX int vk_##n##_decode(void* o, const void* buf, int checked) { return C(enc_##n##_t, buf).decode(M(A, o), checked != 0) ? 1 : 0; } \
    EX size_t vk_##n##_size(void) { return enc_##n##_t::size; }
ENC_OPS(g1c, G1Affine, true)
ENC_OPS(g1u, G1Affine, false)
ENC_OPS(g2c, G2Affine, true)
ENC_OPS(g2u, G2Affine, false)
EX int vk_is_encoding_compressed(int b) { return is_encoding_compressed((uint8_t) b) ? 1 : 0; }

/* ------------------------------------------------------------------ pairing */
EX void vk_miller_loop_affine(void* o, const void* p, const void* q) { miller_loop(M(Fq12, o), C(G1Affine, p), C(G2Affine, q)); }
EX void vk_miller_loop_prepared(void* o, const void* p, const void* q) { miller_loop(M(Fq12, o), C(G1Affine, p), C(G2Prepared, q)); }
EX void vk_miller_loop_multi(void* o, void* ap, size_t na, void* pp, size_t np) { miller_loop(M(Fq12, o), (AffinePair*) ap, na, (PreparedPair*) pp, np); }
EX void vk_final_exponentiation(void* o, const void* a) { final_exponentiation(M(Fq12, o), C(Fq12, a)); }
EX void vk_pairing_affine(void* o, const void* p, const void* q) { pairing(M(Fq12, o), C(G1Affine, p), C(G2Affine, q)); }
EX void vk_pairing_prepared(void* o, const void* p, const void* q) { pairing(M(Fq12, o), C(G1Affine, p), C(G2Prepared, q)); }
EX void vk_pairing_product(void* o, void* ap, size_t na, void* pp, size_t np) { pairing_product(M(Fq12, o), (AffinePair*) ap, na, (PreparedPair*) pp, np); }
EX void vk_g2prepared_prepare(void* o, const void* q) { M(G2Prepared, o).prepare(C(G2Affine, q)); }
EX int vk_g2prepared_is_zero(const void* a) { return C(G2Prepared, a).is_zero() ? 1 : 0; }
/* pair arrays are built here because the cursor members are private */
EX void vk_affinepair_init(void* pair, const void* g1, const void* g2, int garbage) {
    memset(pair, garbage, sizeof(AffinePair));
    M(AffinePair, pair).g1 = reinterpret_cast<const G1Affine*>(g1);
    M(AffinePair, pair).g2 = reinterpret_cast<const G2Affine*>(g2);
}
EX void vk_preparedpair_init(void* pair, const void* g1, const void* g2, int garbage) {
    memset(pair, garbage, sizeof(PreparedPair));
    M(PreparedPair, pair).g1 = reinterpret_cast<const G1Affine*>(g1);
    M(PreparedPair, pair).g2 = reinterpret_cast<const G2Prepared*>(g2);
}

/* ------------------------------------------------------------------ wkdibe / lqibe (C++ entry points) */
EX void vk_wk_scalar_hash_reduce(void* x) { wkdibe::scalar_hash_reduce(M(wkdibe::Scalar, x)); }
EX void vk_wk_random_zpstar(void* s, rng_t rng) { wkdibe::random_zpstar(M(wkdibe::Scalar, s), rng); }
EX void vk_wk_random_zpstar_powers(void* px, void* s, rng_t rng) { wkdibe::random_zpstar(M(PowersOfX, px), M(wkdibe::Scalar, s), rng); }
EX void vk_wk_random_g1(void* o, rng_t rng) { wkdibe::random_g1(M(G1, o), rng); }
EX void vk_wk_random_g2(void* o, rng_t rng) { wkdibe::random_g2(M(G2, o), rng); }
EX void vk_wk_random_gt(void* o, rng_t rng) { wkdibe::random_gt(M(Fq12, o), rng); }
EX void vk_wk_setup(void* params, void* msk, int l, int sig, rng_t rng) { wkdibe::setup(M(wkdibe::Params, params), M(wkdibe::MasterKey, msk), l, sig != 0, rng); }
EX void vk_wk_keygen(void* sk, const void* params, const void* msk, const void* attrs, rng_t rng) { wkdibe::keygen(M(wkdibe::SecretKey, sk), C(wkdibe::Params, params), C(wkdibe::MasterKey, msk), C(wkdibe::AttributeList, attrs), rng); }
EX void vk_wk_qualifykey(void* out, const void* params, const void* sk, const void* attrs, rng_t rng) { wkdibe::qualifykey(M(wkdibe::SecretKey, out), C(wkdibe::Params, params), C(wkdibe::SecretKey, sk), C(wkdibe::AttributeList, attrs), rng); }
EX void vk_wk_nondelegable_keygen(void* sk, const void* params, const void* msk, const void* attrs) { wkdibe::nondelegable_keygen(M(wkdibe::SecretKey, sk), C(wkdibe::Params, params), C(wkdibe::MasterKey, msk), C(wkdibe::AttributeList, attrs)); }
EX void vk_wk_nondelegable_qualifykey(void* out, const void* params, const void* sk, const void* attrs) { wkdibe::nondelegable_qualifykey(M(wkdibe::SecretKey, out), C(wkdibe::Params, params), C(wkdibe::SecretKey, sk), C(wkdibe::AttributeList, attrs)); }
EX void vk_wk_adjust_nondelegable(void* sk, const void* parent, const void* from, const void* to) { wkdibe::adjust_nondelegable(M(wkdibe::SecretKey, sk), C(wkdibe::SecretKey, parent), C(wkdibe::AttributeList, from), C(wkdibe::AttributeList, to)); }
EX void vk_wk_precompute(void* pre, const void* params, const void* attrs) { wkdibe::precompute(M(wkdibe::Precomputed, pre), C(wkdibe::Params, params), C(wkdibe::AttributeList, attrs)); }
EX void vk_wk_adjust_precomputed(void* pre, const void* params, const void* from, const void* to) { wkdibe::adjust_precomputed(M(wkdibe::Precomputed, pre), C(wkdibe::Params, params), C(wkdibe::AttributeList, from), C(wkdibe::AttributeList, to)); }
EX void vk_wk_resamplekey(void* out, const void* params, const void* pre, const void* sk, int further, rng_t rng) { wkdibe::resamplekey(M(wkdibe::SecretKey, out), C(wkdibe::Params, params), C(wkdibe::Precomputed, pre), C(wkdibe::SecretKey, sk), further != 0, rng); }
EX void vk_wk_encrypt(void* ct, const void* msg, const void* params, const void* attrs, rng_t rng) { wkdibe::encrypt(M(wkdibe::Ciphertext, ct), C(Fq12, msg), C(wkdibe::Params, params), C(wkdibe::AttributeList, attrs), rng); }
EX void vk_wk_encrypt_precomputed(void* ct, const void* msg, const void* params, const void* pre, rng_t rng) { wkdibe::encrypt_precomputed(M(wkdibe::Ciphertext, ct), C(Fq12, msg), C(wkdibe::Params, params), C(wkdibe::Precomputed, pre), rng); }
EX void vk_wk_decrypt(void* msg, const void* ct, const void* sk) { wkdibe::decrypt(M(Fq12, msg), C(wkdibe::Ciphertext, ct), C(wkdibe::SecretKey, sk)); }
EX void vk_wk_decrypt_master(void* msg, const void* ct, const void* msk) { wkdibe::decrypt_master(M(Fq12, msg), C(wkdibe::Ciphertext, ct), C(wkdibe::MasterKey, msk)); }
EX void vk_wk_sign(void* sig, const void* params, const void* sk, const void* attrs, const void* m, rng_t rng) { wkdibe::sign(M(wkdibe::Signature, sig), C(wkdibe::Params, params), C(wkdibe::SecretKey, sk), reinterpret_cast<const wkdibe::AttributeList*>(attrs), C(wkdibe::Scalar, m), rng); }
EX void vk_wk_sign_precomputed(void* sig, const void* params, const void* sk, const void* attrs, const void* pre, const void* m, rng_t rng) { wkdibe::sign_precomputed(M(wkdibe::Signature, sig), C(wkdibe::Params, params), C(wkdibe::SecretKey, sk), reinterpret_cast<const wkdibe::AttributeList*>(attrs), C(wkdibe::Precomputed, pre), C(wkdibe::Scalar, m), rng); }
EX int vk_wk_verify(const void* params, const void* attrs, const void* sig, const void* m) { return wkdibe::verify(C(wkdibe::Params, params), C(wkdibe::AttributeList, attrs), C(wkdibe::Signature, sig), C(wkdibe::Scalar, m)) ? 1 : 0; }
EX int vk_wk_verify_precomputed(const void* params, const void* pre, const void* sig, const void* m) { return wkdibe::verify_precomputed(C(wkdibe::Params, params), C(wkdibe::Precomputed, pre), C(wkdibe::Signature, sig), C(wkdibe::Scalar, m)) ? 1 : 0; }

#define WK_MARSHAL(n, T) \
    EX void vk_wk_##n##_marshal(void* buf, const void* obj, int compressed) { if (compressed) C(wkdibe::T, obj).marshal<true>(buf); else C(wkdibe::T, obj).marshal<false>(buf); } \
    EX int vk_wk_##n##_unmarshal(void* obj, const void* buf, int compressed, int checked) { return (compressed ? M(wkdibe::T, obj).unmarshal<true>(buf, checked != 0) : M(wkdibe::T, obj).unmarshal<false>(buf, checked != 0)) ? 1 : 0; }
WK_MARSHAL(params, Params) WK_MARSHAL(ciphertext, Ciphertext) WK_MARSHAL(signature, Signature)
WK_MARSHAL(secretkey, SecretKey) WK_MARSHAL(masterkey, MasterKey)
EX int vk_wk_params_set_length(void* p, const void* buf, size_t len, int c) { return c ? M(wkdibe::Params, p).setLength<true>(buf, len) : M(wkdibe::Params, p).setLength<false>(buf, len); }
EX size_t vk_wk_params_get_marshalled_length(const void* p, int c) { return c ? C(wkdibe::Params, p).getMarshalledLength<true>() : C(wkdibe::Params, p).getMarshalledLength<false>(); }
EX int vk_wk_params_unmarshalled_length(const void* buf, size_t len, int c) { return c ? wkdibe::Params::unmarshalledLength<true>(buf, len) : wkdibe::Params::unmarshalledLength<false>(buf, len); }
EX size_t vk_wk_params_marshalled_length(int l, int sig, int c) { return c ? wkdibe::Params::marshalledLength<true>(l, sig != 0) : wkdibe::Params::marshalledLength<false>(l, sig != 0); }
EX int vk_wk_secretkey_set_length(void* p, const void* buf, size_t len, int c) { return c ? M(wkdibe::SecretKey, p).setLength<true>(buf, len) : M(wkdibe::SecretKey, p).setLength<false>(buf, len); }
EX size_t vk_wk_secretkey_get_marshalled_length(const void* p, int c) { return c ? C(wkdibe::SecretKey, p).getMarshalledLength<true>() : C(wkdibe::SecretKey, p).getMarshalledLength<false>(); }
EX int vk_wk_secretkey_unmarshalled_length(const void* buf, size_t len, int c) { return c ? wkdibe::SecretKey::unmarshalledLength<true>(buf, len) : wkdibe::SecretKey::unmarshalledLength<false>(buf, len); }
EX size_t vk_wk_secretkey_marshalled_length(int l, int sig, int c) { return c ? wkdibe::SecretKey::marshalledLength<true>(l, sig != 0) : wkdibe::SecretKey::marshalledLength<false>(l, sig != 0); }
EX size_t vk_wk_fixed_marshalled_length(const char* n, int c) {
    if (!strcmp(n, "ciphertext")) return c ? wkdibe::Ciphertext::marshalledLength<true> : wkdibe::Ciphertext::marshalledLength<false>;
    if (!strcmp(n, "signature")) return c ? wkdibe::Signature::marshalledLength<true> : wkdibe::Signature::marshalledLength<false>;
    if (!strcmp(n, "masterkey")) return c ? wkdibe::MasterKey::marshalledLength<true> : wkdibe::MasterKey::marshalledLength<false>;
    if (!strcmp(n, "freeslot")) return c ? wkdibe::FreeSlot::marshalledLength<true> : wkdibe::FreeSlot::marshalledLength<false>;
    if (!strcmp(n, "lq_params")) return c ? lqibe::Params::marshalledLength<true> : lqibe::Params::marshalledLength<false>;
    if (!strcmp(n, "lq_id")) return c ? lqibe::ID::marshalledLength<true> : lqibe::ID::marshalledLength<false>;
    if (!strcmp(n, "lq_masterkey")) return c ? lqibe::MasterKey::marshalledLength<true> : lqibe::MasterKey::marshalledLength<false>;
    if (!strcmp(n, "lq_secretkey")) return c ? lqibe::SecretKey::marshalledLength<true> : lqibe::SecretKey::marshalledLength<false>;
    if (!strcmp(n, "lq_ciphertext")) return c ? lqibe::Ciphertext::marshalledLength<true> : lqibe::Ciphertext::marshalledLength<false>;
    return 0;
}

typedef void (*hash_t)(void*, size_t, const void*, size_t);
EX void vk_lq_compute_id_from_hash(void* id, const void* hash) { lqibe::compute_id_from_hash(M(lqibe::ID, id), C(lqibe::IDHash, hash)); }
EX void vk_lq_setup(void* params, void* msk, rng_t rng) { lqibe::setup(M(lqibe::Params, params), M(lqibe::MasterKey, msk), rng); }
EX void vk_lq_keygen(void* sk, const void* msk, const void* id) { lqibe::keygen(M(lqibe::SecretKey, sk), C(lqibe::MasterKey, msk), C(lqibe::ID, id)); }
EX void vk_lq_encrypt(void* ct, void* sym, size_t symlen, const void* params, const void* id, hash_t h, rng_t rng) { lqibe::encrypt(M(lqibe::Ciphertext, ct), sym, symlen, C(lqibe::Params, params), C(lqibe::ID, id), h, rng); }
EX void vk_lq_decrypt(void* sym, size_t symlen, const void* ct, const void* sk, const void* id, hash_t h) { lqibe::decrypt(sym, symlen, C(lqibe::Ciphertext, ct), C(lqibe::SecretKey, sk), C(lqibe::ID, id), h); }
#define LQ_MARSHAL(n, T) \
    EX void vk_lq_##n##_marshal(void* buf, const void* obj, int compressed) { if (compressed) C(lqibe::T, obj).marshal<true>(buf); else C(lqibe::T, obj).marshal<false>(buf); } \
    EX int vk_lq_##n##_unmarshal(void* obj, const void* buf, int compressed, int checked) { return (compressed ? M(lqibe::T, obj).unmarshal<true>(buf, checked != 0) : M(lqibe::T, obj).unmarshal<false>(buf, checked != 0)) ? 1 : 0; }
LQ_MARSHAL(params, Params) LQ_MARSHAL(id, ID) LQ_MARSHAL(masterkey, MasterKey) LQ_MARSHAL(secretkey, SecretKey) LQ_MARSHAL(ciphertext, Ciphertext)
