/*
 * C19 static part: for every structure declared in the C headers and the C++ type it is cast to, print size, alignment
 * and the offset and size of every member on both sides; for every exported constant print whether the C view equals the
 * C++ value.  Compiled once per word-size configuration (with -fno-access-control so that private cursor members can be
 * measured; nothing is accessed at run time).
 */
#include <stddef.h>
#include <stdio.h>
#include <string.h>

#include "bls12_381/bls12_381.h"
#include "wkdibe/wkdibe.h"
#include "lqibe/lqibe.h"

#include "core/bigint.hpp"
#include "bls12_381/fq.hpp"
#include "bls12_381/fr.hpp"
#include "bls12_381/fq2.hpp"
#include "bls12_381/fq6.hpp"
#include "bls12_381/fq12.hpp"
#include "bls12_381/curve.hpp"
#include "bls12_381/pairing.hpp"
#include "wkdibe/api.hpp"
#include "lqibe/api.hpp"

#pragma clang diagnostic ignored "-Winvalid-offsetof"

using namespace embedded_pairing;
using namespace embedded_pairing::core;
using namespace embedded_pairing::bls12_381;

#define S(name, CT, XT) printf("S %s %zu %zu %zu %zu\n", name, sizeof(CT), alignof(CT), sizeof(XT), alignof(XT));
/* A member that one side does not have under the name this table uses (a private cursor field was renamed, say) cannot be compared: its
 * row carries (size_t) -1 and is skipped by the check (the struct's size / alignment rows and the neighbouring members still bind the layout).
 * One probe per member name, selected by SFINAE so that the table compiles whatever the structs call their members. */
#define MEMBER_PROBE(m) \
    struct probe_##m { \
        template <class T> static constexpr auto off(int) -> decltype((void) sizeof(((T*) nullptr)->m), size_t()) { return offsetof(T, m); } \
        template <class T> static constexpr size_t off(...) { return (size_t) -1; } \
        template <class T> static constexpr auto size(int) -> decltype((void) sizeof(((T*) nullptr)->m), size_t()) { return sizeof(((T*) nullptr)->m); } \
        template <class T> static constexpr size_t size(...) { return (size_t) -1; } \
    };
/*MEMBER-PROBES-BEGIN*/
MEMBER_PROBE(_coeff_idx)
MEMBER_PROBE(_r)
MEMBER_PROBE(a)
MEMBER_PROBE(a0)
MEMBER_PROBE(a1)
MEMBER_PROBE(attrs)
MEMBER_PROBE(b)
MEMBER_PROBE(bsig)
MEMBER_PROBE(c)
MEMBER_PROBE(c0)
MEMBER_PROBE(c1)
MEMBER_PROBE(c2)
MEMBER_PROBE(coeff_idx)
MEMBER_PROBE(coeffs)
MEMBER_PROBE(dwords)
MEMBER_PROBE(g)
MEMBER_PROBE(g1)
MEMBER_PROBE(g2)
MEMBER_PROBE(g2alpha)
MEMBER_PROBE(g3)
MEMBER_PROBE(h)
MEMBER_PROBE(hash)
MEMBER_PROBE(hexp)
MEMBER_PROBE(hsig)
MEMBER_PROBE(id)
MEMBER_PROBE(idx)
MEMBER_PROBE(infinity)
MEMBER_PROBE(l)
MEMBER_PROBE(length)
MEMBER_PROBE(omitAllFromKeysUnlessPresent)
MEMBER_PROBE(omitFromKeys)
MEMBER_PROBE(p)
MEMBER_PROBE(pairing)
MEMBER_PROBE(prodexp)
MEMBER_PROBE(q)
MEMBER_PROBE(r)
MEMBER_PROBE(rp)
MEMBER_PROBE(s)
MEMBER_PROBE(signatures)
MEMBER_PROBE(sp)
MEMBER_PROBE(sq)
MEMBER_PROBE(val)
MEMBER_PROBE(x)
MEMBER_PROBE(y)
MEMBER_PROBE(z)
/*MEMBER-PROBES-END*/
#define O(name, CT, cm, XT, xm) printf("O %s.%s %zu %zu %zu %zu\n", name, #cm, probe_##cm::off<CT>(0), probe_##xm::off<XT>(0), probe_##cm::size<CT>(0), probe_##xm::size<XT>(0));
#define K(name, cond) printf("K %s %d\n", name, (cond) ? 1 : 0);

int main() {
    typedef embedded_pairing_core_bigint_256_t c_bi256;
    typedef embedded_pairing_core_bigint_384_t c_bi384;
    S("bigint256", c_bi256, BigInt<256>) O("bigint256", c_bi256, dwords, BigInt<256>, dwords)
    S("bigint384", c_bi384, BigInt<384>) O("bigint384", c_bi384, dwords, BigInt<384>, dwords)
    printf("S word %zu %zu %zu %zu\n", sizeof(embedded_pairing_core_bigint_word_t), alignof(embedded_pairing_core_bigint_word_t), sizeof(BigInt<384>::word_t), alignof(BigInt<384>::word_t));
    printf("S dword %zu %zu %zu %zu\n", sizeof(embedded_pairing_core_bigint_dword_t), alignof(embedded_pairing_core_bigint_dword_t), sizeof(BigInt<384>::dword_t), alignof(BigInt<384>::dword_t));

    typedef embedded_pairing_bls12_381_fq_t c_fq;
    typedef embedded_pairing_bls12_381_fq2_t c_fq2;
    typedef embedded_pairing_bls12_381_fq6_t c_fq6;
    typedef embedded_pairing_bls12_381_fq12_t c_fq12;
    S("fq", c_fq, Fq) O("fq", c_fq, val, Fq, val)
    S("fq2", c_fq2, Fq2) O("fq2", c_fq2, c0, Fq2, c0) O("fq2", c_fq2, c1, Fq2, c1)
    S("fq6", c_fq6, Fq6) O("fq6", c_fq6, c0, Fq6, c0) O("fq6", c_fq6, c1, Fq6, c1) O("fq6", c_fq6, c2, Fq6, c2)
    S("fq12", c_fq12, Fq12) O("fq12", c_fq12, c0, Fq12, c0) O("fq12", c_fq12, c1, Fq12, c1)

    typedef embedded_pairing_bls12_381_g1affine_t c_g1a;
    typedef embedded_pairing_bls12_381_g1_t c_g1;
    typedef embedded_pairing_bls12_381_g2affine_t c_g2a;
    typedef embedded_pairing_bls12_381_g2_t c_g2;
    S("g1affine", c_g1a, G1Affine) O("g1affine", c_g1a, x, G1Affine, x) O("g1affine", c_g1a, y, G1Affine, y) O("g1affine", c_g1a, infinity, G1Affine, infinity)
    S("g1", c_g1, G1) O("g1", c_g1, x, G1, x) O("g1", c_g1, y, G1, y) O("g1", c_g1, z, G1, z)
    S("g2affine", c_g2a, G2Affine) O("g2affine", c_g2a, x, G2Affine, x) O("g2affine", c_g2a, y, G2Affine, y) O("g2affine", c_g2a, infinity, G2Affine, infinity)
    S("g2", c_g2, G2) O("g2", c_g2, x, G2, x) O("g2", c_g2, y, G2, y) O("g2", c_g2, z, G2, z)

    typedef embedded_pairing_bls12_381_g2prepared_t c_prep;
    S("g2prepared", c_prep, G2Prepared) O("g2prepared", c_prep, coeffs, G2Prepared, coeffs) O("g2prepared", c_prep, infinity, G2Prepared, infinity)
    printf("O g2prepared.coeffs[0] %zu %zu %zu %zu\n", (size_t) 0, (size_t) 0, sizeof(((c_prep*) 0)->coeffs[0]), sizeof(MillerTriple));
    printf("O g2prepared.coeffs[0].a %zu %zu %zu %zu\n", offsetof(c_prep, coeffs[0].a), offsetof(MillerTriple, a), sizeof(((c_prep*) 0)->coeffs[0].a), sizeof(Fq2));
    printf("O g2prepared.coeffs[0].b %zu %zu %zu %zu\n", offsetof(c_prep, coeffs[0].b), offsetof(MillerTriple, b), sizeof(((c_prep*) 0)->coeffs[0].b), sizeof(Fq2));
    printf("O g2prepared.coeffs[0].c %zu %zu %zu %zu\n", offsetof(c_prep, coeffs[0].c), offsetof(MillerTriple, c), sizeof(((c_prep*) 0)->coeffs[0].c), sizeof(Fq2));
    K("g2prepared.num_coeffs", sizeof(((c_prep*) 0)->coeffs) / sizeof(((c_prep*) 0)->coeffs[0]) == G2Prepared::num_coeffs)

    typedef embedded_pairing_bls12_381_affine_pair_t c_ap;
    typedef embedded_pairing_bls12_381_prepared_pair_t c_pp;
    S("affine_pair", c_ap, AffinePair) O("affine_pair", c_ap, g1, AffinePair, g1) O("affine_pair", c_ap, g2, AffinePair, g2) O("affine_pair", c_ap, _r, AffinePair, r)
    S("prepared_pair", c_pp, PreparedPair) O("prepared_pair", c_pp, g1, PreparedPair, g1) O("prepared_pair", c_pp, g2, PreparedPair, g2) O("prepared_pair", c_pp, _coeff_idx, PreparedPair, coeff_idx)

    typedef embedded_pairing_wkdibe_attribute_t c_attr;
    typedef embedded_pairing_wkdibe_attributelist_t c_al;
    typedef embedded_pairing_wkdibe_params_t c_par;
    typedef embedded_pairing_wkdibe_ciphertext_t c_ct;
    typedef embedded_pairing_wkdibe_signature_t c_sig;
    typedef embedded_pairing_wkdibe_freeslot_t c_fs;
    typedef embedded_pairing_wkdibe_secretkey_t c_sk;
    typedef embedded_pairing_wkdibe_masterkey_t c_mk;
    typedef embedded_pairing_wkdibe_precomputed_t c_pre;
    S("wk_attribute", c_attr, wkdibe::Attribute) O("wk_attribute", c_attr, id, wkdibe::Attribute, id) O("wk_attribute", c_attr, idx, wkdibe::Attribute, idx) O("wk_attribute", c_attr, omitFromKeys, wkdibe::Attribute, omitFromKeys)
    S("wk_attributelist", c_al, wkdibe::AttributeList) O("wk_attributelist", c_al, attrs, wkdibe::AttributeList, attrs) O("wk_attributelist", c_al, length, wkdibe::AttributeList, length)
    O("wk_attributelist", c_al, omitAllFromKeysUnlessPresent, wkdibe::AttributeList, omitAllFromKeysUnlessPresent)
    S("wk_params", c_par, wkdibe::Params) O("wk_params", c_par, g, wkdibe::Params, g) O("wk_params", c_par, g1, wkdibe::Params, g1) O("wk_params", c_par, g2, wkdibe::Params, g2)
    O("wk_params", c_par, g3, wkdibe::Params, g3) O("wk_params", c_par, pairing, wkdibe::Params, pairing) O("wk_params", c_par, hsig, wkdibe::Params, hsig)
    O("wk_params", c_par, signatures, wkdibe::Params, signatures) O("wk_params", c_par, h, wkdibe::Params, h) O("wk_params", c_par, l, wkdibe::Params, l)
    S("wk_ciphertext", c_ct, wkdibe::Ciphertext) O("wk_ciphertext", c_ct, a, wkdibe::Ciphertext, a) O("wk_ciphertext", c_ct, b, wkdibe::Ciphertext, b) O("wk_ciphertext", c_ct, c, wkdibe::Ciphertext, c)
    S("wk_signature", c_sig, wkdibe::Signature) O("wk_signature", c_sig, a0, wkdibe::Signature, a0) O("wk_signature", c_sig, a1, wkdibe::Signature, a1)
    S("wk_freeslot", c_fs, wkdibe::FreeSlot) O("wk_freeslot", c_fs, hexp, wkdibe::FreeSlot, hexp) O("wk_freeslot", c_fs, idx, wkdibe::FreeSlot, idx)
    S("wk_secretkey", c_sk, wkdibe::SecretKey) O("wk_secretkey", c_sk, a0, wkdibe::SecretKey, a0) O("wk_secretkey", c_sk, a1, wkdibe::SecretKey, a1) O("wk_secretkey", c_sk, l, wkdibe::SecretKey, l)
    O("wk_secretkey", c_sk, signatures, wkdibe::SecretKey, signatures) O("wk_secretkey", c_sk, bsig, wkdibe::SecretKey, bsig) O("wk_secretkey", c_sk, b, wkdibe::SecretKey, b)
    S("wk_masterkey", c_mk, wkdibe::MasterKey) O("wk_masterkey", c_mk, g2alpha, wkdibe::MasterKey, g2alpha)
    S("wk_precomputed", c_pre, wkdibe::Precomputed) O("wk_precomputed", c_pre, prodexp, wkdibe::Precomputed, prodexp)

    typedef embedded_pairing_lqibe_idhash_t c_idh;
    typedef embedded_pairing_lqibe_params_t c_lp;
    typedef embedded_pairing_lqibe_id_t c_lid;
    typedef embedded_pairing_lqibe_masterkey_t c_lmk;
    typedef embedded_pairing_lqibe_secretkey_t c_lsk;
    typedef embedded_pairing_lqibe_ciphertext_t c_lct;
    S("lq_idhash", c_idh, lqibe::IDHash) O("lq_idhash", c_idh, hash, lqibe::IDHash, hash)
    S("lq_params", c_lp, lqibe::Params) O("lq_params", c_lp, p, lqibe::Params, p) O("lq_params", c_lp, sp, lqibe::Params, sp)
    S("lq_id", c_lid, lqibe::ID) O("lq_id", c_lid, q, lqibe::ID, q)
    S("lq_masterkey", c_lmk, lqibe::MasterKey) O("lq_masterkey", c_lmk, s, lqibe::MasterKey, s)
    S("lq_secretkey", c_lsk, lqibe::SecretKey) O("lq_secretkey", c_lsk, sq, lqibe::SecretKey, sq)
    S("lq_ciphertext", c_lct, lqibe::Ciphertext) O("lq_ciphertext", c_lct, rp, lqibe::Ciphertext, rp)

    /* exported constants: the C view must hold the C++ value */
    K("group_order", !memcmp(embedded_pairing_bls12_381_group_order, &Fr::p_value, sizeof(BigInt<256>)))
    K("g1_zero", !memcmp(embedded_pairing_bls12_381_g1_zero, &G1::zero, sizeof(G1)))
    K("g1affine_zero", G1Affine::equal(*(const G1Affine*) embedded_pairing_bls12_381_g1affine_zero, G1Affine::zero) && ((const G1Affine*) embedded_pairing_bls12_381_g1affine_zero)->infinity)
    K("g1affine_generator", !memcmp(embedded_pairing_bls12_381_g1affine_generator, &G1Affine::generator, 2 * sizeof(Fq)) && !((const G1Affine*) embedded_pairing_bls12_381_g1affine_generator)->infinity)
    K("g2_zero", !memcmp(embedded_pairing_bls12_381_g2_zero, &G2::zero, sizeof(G2)))
    K("g2affine_zero", ((const G2Affine*) embedded_pairing_bls12_381_g2affine_zero)->infinity)
    K("g2affine_generator", !memcmp(embedded_pairing_bls12_381_g2affine_generator, &G2Affine::generator, 2 * sizeof(Fq2)) && !((const G2Affine*) embedded_pairing_bls12_381_g2affine_generator)->infinity)
    K("gt_zero", !memcmp(embedded_pairing_bls12_381_gt_zero, &Fq12::one, sizeof(Fq12)))
    K("gt_generator", !memcmp(embedded_pairing_bls12_381_gt_generator, &generator_pairing, sizeof(Fq12)))
    K("g1_marshalled_compressed_size", embedded_pairing_bls12_381_g1_marshalled_compressed_size == G1Compressed::size && G1Compressed::size == 48)
    K("g1_marshalled_uncompressed_size", embedded_pairing_bls12_381_g1_marshalled_uncompressed_size == G1Uncompressed::size && G1Uncompressed::size == 96)
    K("g2_marshalled_compressed_size", embedded_pairing_bls12_381_g2_marshalled_compressed_size == G2Compressed::size && G2Compressed::size == 96)
    K("g2_marshalled_uncompressed_size", embedded_pairing_bls12_381_g2_marshalled_uncompressed_size == G2Uncompressed::size && G2Uncompressed::size == 192)
    K("gt_marshalled_size", embedded_pairing_bls12_381_gt_marshalled_size == sizeof(Fq12) && sizeof(Fq12) == 576)
    return 0;
}
